#!/usr/bin/env python3
"""Run the registered checks against a seeded fault.

  tools/mutant.py run <patch.diff> [--props C01,C05|all] [--tier quick]   apply to /repo, run checks, ALWAYS revert
  tools/mutant.py verify <dir>      dir holds patch.diff + demo.rs: in a scratch worktree confirm that the crate's
                                    tests pass with the patch, the demo fails with it and passes without it

Evidence/replays of these runs go to /verif/work/mutants/, never to /verif/evidence.
"""
import json
import os
import shutil
import subprocess
import sys
import tempfile
import time

VERIF = os.path.dirname(os.path.dirname(os.path.abspath(__file__)))
REPO = "/repo"


def sh(cmd, **kw):
    return subprocess.run(cmd, stdout=subprocess.PIPE, stderr=subprocess.STDOUT, text=True, **kw)


def all_props():
    m = json.load(open(os.path.join(VERIF, "MANIFEST.json")))
    return [c["property_id"] for c in m["checks"]]


def run(patch, props, tier):
    patch = os.path.abspath(patch)
    st = sh(["git", "-C", REPO, "status", "--porcelain", "--untracked-files=no"]).stdout.strip()
    if st:
        print("refusing: /repo has local modifications:\n" + st)
        return 3
    r = sh(["git", "-C", REPO, "apply", "--check", patch])
    if r.returncode != 0:
        print("patch does not apply:\n" + r.stdout)
        return 3
    out = os.path.join(VERIF, "work", "mutants", os.path.basename(os.path.dirname(patch)) or "m")
    os.makedirs(out, exist_ok=True)
    env = dict(os.environ)
    env["VERIF_OUT_DIR"] = out
    results = {}
    sh(["git", "-C", REPO, "apply", patch])
    try:
        for p in props:
            t0 = time.time()
            r = subprocess.run([os.path.join(VERIF, "check"), p, "--tier", tier], cwd=VERIF, env=env,
                               stdout=subprocess.PIPE, stderr=subprocess.STDOUT, text=True)
            first = ""
            for line in r.stdout.splitlines():
                if line.startswith("  rule="):
                    first = line.strip()
                    break
                if line.startswith("INCONCLUSIVE"):
                    first = line.strip()[:200]
                    break
            results[p] = (r.returncode, round(time.time() - t0, 1), first)
            print("%s rc=%d %.1fs %s" % (p, r.returncode, time.time() - t0, first), flush=True)
    finally:
        sh(["git", "-C", REPO, "checkout", "--", "."])
        st = sh(["git", "-C", REPO, "status", "--porcelain", "--untracked-files=no"]).stdout.strip()
        if st:
            print("WARNING: /repo not clean after revert:\n" + st)
    json.dump(results, open(os.path.join(out, "results.json"), "w"), indent=1)
    caught = [p for p, v in results.items() if v[0] == 1]
    print("CAUGHT_BY: %s" % (",".join(caught) or "-"))
    return 0


def verify(d):
    d = os.path.abspath(d)
    patch = os.path.join(d, "patch.diff")
    demo = os.path.join(d, "demo.rs")
    wt = tempfile.mkdtemp(prefix="seedverify-", dir="/tmp")
    os.rmdir(wt)
    r = sh(["git", "-C", REPO, "worktree", "add", "-q", "--detach", wt, "HEAD"])
    if r.returncode != 0:
        print(r.stdout)
        return 3
    env = dict(os.environ)
    env["CARGO_TARGET_DIR"] = os.path.join(wt, "target")
    env["CARGO_NET_OFFLINE"] = "true"
    ok = True
    try:
        os.makedirs(os.path.join(wt, "tests"), exist_ok=True)
        shutil.copy(demo, os.path.join(wt, "tests", "demo.rs"))
        r0 = sh(["cargo", "test", "--offline", "--test", "demo"], cwd=wt, env=env)
        print("demo without patch: rc=%d" % r0.returncode)
        ok &= r0.returncode == 0
        r = sh(["git", "-C", wt, "apply", patch])
        if r.returncode != 0:
            print("patch does not apply: " + r.stdout)
            return 3
        r1 = sh(["cargo", "test", "--offline", "--test", "demo"], cwd=wt, env=env)
        print("demo with patch: rc=%d" % r1.returncode)
        ok &= r1.returncode != 0
        os.remove(os.path.join(wt, "tests", "demo.rs"))
        r2 = sh(["cargo", "test", "--offline"], cwd=wt, env=env)
        tail = [l for l in r2.stdout.splitlines() if l.startswith("test result")]
        print("crate tests with patch: rc=%d %s" % (r2.returncode, " | ".join(tail)))
        ok &= r2.returncode == 0
    finally:
        sh(["git", "-C", REPO, "worktree", "remove", "--force", wt])
        shutil.rmtree(wt, ignore_errors=True)
    print("VERIFIED" if ok else "NOT VERIFIED")
    return 0 if ok else 1


SNAP = None


def scratch_run(mdir, props, tier, keep=False):
    """run the checks against one seeded fault entirely in scratch copies (repo worktree + copy of /verif),
    so that several faults can be evaluated in parallel and /repo and /verif stay untouched"""
    mdir = os.path.abspath(mdir)
    name = os.path.basename(os.path.dirname(mdir)) + "-" + os.path.basename(mdir) if os.path.basename(mdir) in ("A", "B") else os.path.basename(mdir)
    base = "/tmp/mrun/" + name
    shutil.rmtree(base, ignore_errors=True)
    os.makedirs(base)
    wt = base + "/repo"
    r = sh(["git", "-C", REPO, "worktree", "add", "-q", "--detach", wt, "HEAD"])
    if r.returncode != 0:
        return {"error": r.stdout}
    res = {}
    try:
        r = sh(["git", "-C", wt, "apply", os.path.join(mdir, "patch.diff")])
        if r.returncode != 0:
            return {"error": "patch does not apply: " + r.stdout}
        vf = base + "/verif"
        os.makedirs(vf)
        src = SNAP or VERIF
        for f in ("check", "propcfg.py", "MANIFEST.json", "KNOWN_FINDINGS.txt"):
            shutil.copy(os.path.join(src, f), vf)
        shutil.copytree(os.path.join(src, "harness"), vf + "/harness", ignore=shutil.ignore_patterns("target"))
        ct = open(vf + "/harness/Cargo.toml").read().replace('path = "/repo"', 'path = "%s"' % wt)
        open(vf + "/harness/Cargo.toml", "w").write(ct)
        env = dict(os.environ)
        env.pop("VERIF_OUT_DIR", None)
        for p in props:
            t0 = time.time()
            r = subprocess.run([vf + "/check", p, "--tier", tier], cwd=vf, env=env, stdout=subprocess.PIPE,
                               stderr=subprocess.STDOUT, text=True)
            first = ""
            for line in r.stdout.splitlines():
                if line.startswith("  rule=") or line.startswith("INCONCLUSIVE"):
                    first = line.strip()[:160]
                    break
            res[p] = [r.returncode, round(time.time() - t0, 1), first]
    finally:
        sh(["git", "-C", REPO, "worktree", "remove", "--force", wt])
        if not keep:
            shutil.rmtree(base, ignore_errors=True)
    return res


def matrix(dirs, props, tier, jobs):
    from concurrent.futures import ThreadPoolExecutor
    out = os.path.join(VERIF, "work", "matrix")
    os.makedirs(out, exist_ok=True)
    # freeze the machinery: later edits of /verif do not disturb this run
    global SNAP
    SNAP = "/tmp/mrun/_snapshot_%d" % os.getpid()
    shutil.rmtree(SNAP, ignore_errors=True)
    os.makedirs(SNAP)
    for f in ("check", "propcfg.py", "MANIFEST.json", "KNOWN_FINDINGS.txt"):
        shutil.copy(os.path.join(VERIF, f), SNAP)
    shutil.copytree(os.path.join(VERIF, "harness"), SNAP + "/harness", ignore=shutil.ignore_patterns("target"))

    def one(d):
        r = scratch_run(d, props, tier)
        name = os.path.relpath(os.path.abspath(d), "/")
        caught = sorted(p for p, v in r.items() if isinstance(v, list) and v[0] == 1)
        incon = sorted(p for p, v in r.items() if isinstance(v, list) and v[0] not in (0, 1))
        print("%-40s caught_by=%s inconclusive=%s %s" % (d, ",".join(caught) or "-", ",".join(incon) or "-", r.get("error", "")), flush=True)
        json.dump(r, open(os.path.join(out, name.replace("/", "_") + ".json"), "w"), indent=1)
        return d, r
    with ThreadPoolExecutor(max_workers=jobs) as ex:
        list(ex.map(one, dirs))
    shutil.rmtree(SNAP, ignore_errors=True)
    return 0


def targeted(dirs, jobs):
    """each fault against the check of the property it was written for (first line `PROPERTY: Cxx` of notes.md,
    else the Cxx prefix of the directory name)"""
    import re
    from concurrent.futures import ThreadPoolExecutor
    global SNAP
    SNAP = "/tmp/mrun/_snapshot_%d" % os.getpid()
    shutil.rmtree(SNAP, ignore_errors=True)
    os.makedirs(SNAP)
    for f in ("check", "propcfg.py", "MANIFEST.json", "KNOWN_FINDINGS.txt"):
        shutil.copy(os.path.join(VERIF, f), SNAP)
    shutil.copytree(os.path.join(VERIF, "harness"), SNAP + "/harness", ignore=shutil.ignore_patterns("target"))

    def prop_of(d):
        try:
            first = open(os.path.join(d, "notes.md")).read(400)
            m = re.search(r"PROPERTY:\s*(C\d\d)", first)
            if m:
                return m.group(1)
        except OSError:
            pass
        m = re.search(r"(C\d\d)", os.path.basename(os.path.abspath(d)), re.I)
        return m.group(1).upper() if m else None

    def one(d):
        pr = prop_of(d)
        r = scratch_run(d, [pr], "quick")
        v = r.get(pr, ["?", 0, r.get("error", "")])
        print("%-36s target=%s rc=%s %s" % (d, pr, v[0], v[2]), flush=True)
        return d, pr, v
    with ThreadPoolExecutor(max_workers=jobs) as ex:
        out = list(ex.map(one, dirs))
    shutil.rmtree(SNAP, ignore_errors=True)
    json.dump({d: [pr, v] for d, pr, v in out}, open(os.path.join(VERIF, "work", "targeted_last.json"), "w"), indent=1)
    return 0


def main():
    a = sys.argv[1:]
    if len(a) < 2:
        print(__doc__)
        return 3
    if a[0] == "verify":
        return verify(a[1])
    if a[0] == "targeted":
        dirs = [x for x in a[1:] if not x.startswith("--") and os.path.isdir(x)]
        jobs = int(a[a.index("--jobs") + 1]) if "--jobs" in a else 4
        return targeted(dirs, jobs)
    if a[0] == "matrix":
        props = all_props()
        dirs = [x for x in a[1:] if not x.startswith("--") and os.path.isdir(x)]
        jobs = 4
        tier = "quick"
        if "--props" in a:
            v = a[a.index("--props") + 1]
            if v != "all":
                props = v.split(",")
        if "--jobs" in a:
            jobs = int(a[a.index("--jobs") + 1])
        return matrix(dirs, props, tier, jobs)
    if a[0] == "run":
        props = all_props()
        tier = "quick"
        if "--props" in a:
            v = a[a.index("--props") + 1]
            if v != "all":
                props = v.split(",")
        if "--tier" in a:
            tier = a[a.index("--tier") + 1]
        return run(a[1], props, tier)
    return 3


if __name__ == "__main__":
    sys.exit(main())
