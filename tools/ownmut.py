#!/usr/bin/env python3
"""Generate single-site mutants of /repo (HEAD) from a substitution list, keep those that compile and pass the
crate's own test suite, and store them under /verif/seeded/own/<name>/patch.diff (+ meta.json)."""
import json, os, subprocess, sys, shutil

REPO = "/repo"
OUT = "/verif/seeded/own"
WT = "/tmp/ownmut"

M = [
 # name, file, old, new, props, what
 ("c01-nullable-loop-start0", "src/regular_expressions.rs", "BaseRegLan::Loop(e, range) => range.start() == 0 || e.nullable,", "BaseRegLan::Loop(e, _) => e.nullable,", ["C01"], "is_nullable ignores loops that start at 0"),
 ("c01-concat-addpoint0", "src/regular_expressions.rs", "(_, BaseRegLan::Loop(y, rng)) if *e1 == **y => {\n                self.make(BaseRegLan::Loop(e1, rng.add_point(1)))", "(_, BaseRegLan::Loop(y, rng)) if *e1 == **y => {\n                self.make(BaseRegLan::Loop(e1, rng.add_point(0)))", ["C01"], "R . R^[i,j] rewritten to R^[i,j]"),
 ("c01-flatten-inexact-loops", "src/regular_expressions.rs", "BaseRegLan::Loop(x, x_rng) if x_rng.right_mul_is_exact(&range) => {", "BaseRegLan::Loop(x, x_rng) if x_rng.is_finite() || x_rng.right_mul_is_exact(&range) => {", ["C01"], "(R^[i,j])^[k,l] flattened even when the product is not exact"),
 ("c01-sigma-star-absorbs", "src/regular_expressions.rs", "if e1.nullable && e2 == self.sigma_star {", "if e2 == self.sigma_star {", ["C01"], "S . Sigma* -> Sigma* without the nullable test"),
 ("c01-complement-pair-parity", "src/regular_expressions.rs", "if current.id == previous.id + 1 && previous.id % 2 == 0 {", "if current.id == previous.id + 1 {", ["C01", "C07"], "adjacent ids treated as complement pair regardless of parity"),
 ("c01-revert-star-empty", "src/regular_expressions.rs", "BaseRegLan::Empty if range.start() == 0 => self.epsilon,", "BaseRegLan::Empty if range.start() == 0 => self.empty,", ["C01"], "re-introduces defect 1"),
 ("c02-derivclass-concat-left-only", "src/regular_expressions.rs", "                if e1.nullable {\n                    rc(merge_partitions(&e1.deriv_class, &e2.deriv_class))\n                } else {\n                    e1.deriv_class.clone()\n                }", "                e1.deriv_class.clone()", ["C02", "C03"], "derivative classes of a concatenation ignore the right operand"),
 ("c03-loop-deriv-no-shift", "src/regular_expressions.rs", "let e2 = self.mk_loop(e1, range.shift());", "let e2 = self.mk_loop(e1, range);", ["C03", "C01"], "derivative of a loop does not decrement the range"),
 ("c03-inter-classes-first-only", "src/regular_expressions.rs", "BaseRegLan::Inter(args) => merge_deriv_classes(args.as_ref()),", "BaseRegLan::Inter(args) => merge_deriv_classes(&args[..1]),", ["C03", "C02"], "derivative classes of an intersection from the first operand only"),
 ("c03-revert-interval-cover", "src/character_sets.rs", "let next_ai = self.start(i + 1);", "let next_ai = self.end(i + 1);", ["C03", "C11"], "re-introduces defect 2"),
 ("c04-revert-take-list", "src/minimizer.rs", "        match self.list.get_mut(b as usize) {\n            Some(l) => std::mem::take(l),\n            None => SplitterList::default(),\n        }", "        std::mem::take(&mut self.list[b as usize])", ["C04"], "re-introduces defect 3"),
 ("c06-revert-indexof", "src/smt_strings.rs", "if i < 0 || i > s1.len() as i32 {", "if i < 0 || i >= s1.len() as i32 {", ["C06"], "re-introduces defect 4"),
 ("c06-replace-all-advance", "src/smt_strings.rs", "            x.extend_from_slice(&s[i..j]);\n            x.extend_from_slice(r);\n            i = k;", "            x.extend_from_slice(&s[i..j]);\n            x.extend_from_slice(r);\n            i = j + 1;", ["C06"], "replace_all continues one character after the match start"),
 ("c08-revert-backslash", "src/smt_strings.rs", "            } else if x >= 32 && x < 127 && x != '\\\\' as u32 {\n                write!(f", "            } else if x >= 32 && x < 127 {\n                write!(f", ["C08"], "re-introduces defect 5 (Display only)"),
 ("c08-brace-digits-limit", "src/smt_strings.rs", "} else if x.is_ascii_hexdigit() && self.pending_idx < 8 {", "} else if x.is_ascii_hexdigit() && self.pending_idx < 9 {", ["C08"], "accepts six hex digits in braces"),
 ("c08-drop-maxchar-test", "src/smt_strings.rs", "if x == '}' && self.pending_idx > 3 && self.escape_code <= MAX_CHAR {", "if x == '}' && self.pending_idx > 3 {", ["C08", "C17"], "escape values above 0x2FFFF accepted"),
 ("c09-revert-toint", "src/smt_strings.rs", "        x = x\n            .checked_mul(10)\n            .and_then(|y| y.checked_add(d as i32 - '0' as i32))\n            .expect(\"Arithmetic overflow in str_to_int\");", "        let y = x.wrapping_mul(10).wrapping_add(d as i32 - '0' as i32);\n        if y < x {\n            panic!(\"Arithmetic overflow in str_to_int\");\n        }\n        x = y;", ["C09"], "re-introduces defect 6"),
 ("c09-le-prefix", "src/smt_strings.rs", "    if i == max {\n        v.len() <= w.len()\n    } else {\n        v[i] < w[i]\n    }", "    if i == max {\n        v.len() < w.len()\n    } else {\n        v[i] < w[i]\n    }", ["C09"], "str_le is strict on prefixes"),
 ("c10-allow-empty-ignored", "src/matcher.rs", "if allow_empty && pattern.nullable {", "if pattern.nullable {", ["C10"], "replace_re_all matches the empty string"),
 ("c10-longest-match", "src/matcher.rs", "            if p.nullable {\n                return SearchResult::Found(i, j + 1);\n            }", "            if p.nullable && (j + 1 == s_len || manager.char_derivative(p, string[j + 1]).is_empty()) {\n                return SearchResult::Found(i, j + 1);\n            }", ["C10"], "prefers a longer match when the next character cannot extend... (not shortest)"),
 ("c12-merge-prefix-carry", "src/character_sets.rs", "            triple1 = next_interval(p1, i);\n            triple2.1 = b + 1;", "            triple1 = next_interval(p1, i);\n            triple2.1 = b;", ["C12", "C02", "C03"], "carry of the partial interval starts one character early"),
 ("c13-revert-validate", "src/automata.rs", "            if s.default_successor.is_none() && !specified.empty_complement() {\n                return Err(Error::MissingDefaultSuccessor);\n            }\n", "", ["C13"], "re-introduces half of defect 7 (incomplete states accepted)"),
 ("c13-drop-empty-complement-test", "src/automata.rs", "            if s.default_successor.is_none() && !p.empty_complement() {\n                return Err(Error::MissingDefaultSuccessor);\n            }\n", "", ["C13"], "post-cleanup missing-default test dropped (redundant after the fix: should stay silent or caught)"),
 ("c15-exact-threshold", "src/loop_ranges.rs", "mul32(other.start(), self.end() - self.start()) >= self.start().saturating_sub(1)", "mul32(other.start(), self.end() - self.start()) >= self.start().saturating_sub(2)", ["C15", "C01"], "gap criterion off by one (claims exactness too often)"),
 ("c15-shift-zero-start", "src/loop_ranges.rs", "LoopRange(0, Some(j)) => LoopRange::finite(0, *j - 1),", "LoopRange(0, Some(j)) => LoopRange::finite(0, *j),", ["C15", "C03", "C01"], "shift keeps the upper bound when the lower bound is 0"),
 ("c16-union-left-any", "src/regular_expressions.rs", "s.expr.concat_or_atomic() && list.iter().all(|&x| sub_language(x, s))", "s.expr.concat_or_atomic() && list.iter().any(|&x| sub_language(x, s))", ["C16", "C01"], "union on the left: any instead of all"),
 ("c16-flexible-any-loop", "src/regular_expressions.rs", "v.len() == 1 && v[0].expr.is_full()", "v.len() == 1 && matches!(v[0].expr, BaseRegLan::Loop(..))", ["C16", "C01"], "flexible_match accepts any single loop"),
 ("c16-covers-swapped", "src/regular_expressions.rs", "BaseRegLan::Range(x) => s.covers(x),", "BaseRegLan::Range(x) => x.covers(s),", ["C16", "C01"], "match_char_set with swapped arguments"),
 ("c17-revert-from-str", "src/smt_strings.rs", "SmtString::make(x.chars().map(smt_char).collect())", "SmtString::make(x.chars().map(|c| c as u32).collect())", ["C17"], "re-introduces defect 8 (From<&str>)"),
 ("c18-revert-start-char", "src/regular_expressions.rs", "            BaseRegLan::Concat(..) | BaseRegLan::Inter(_) | BaseRegLan::Complement(_) => {", "            BaseRegLan::Inter(args) => args.iter().all(|x| self.start_char(x, c)),\n            BaseRegLan::Concat(..) | BaseRegLan::Complement(_) => {", ["C18"], "re-introduces defect 9 (Inter shortcut)"),
 ("c19-bound-off-by-one", "src/regular_expressions.rs", "                if state_count == max_states {\n                    return None;\n                }\n                state_count += 1;", "                state_count += 1;\n                if state_count == max_states {\n                    return None;\n                }", ["C19"], "try_compile fails when the count equals the bound"),
 ("c20-union-adjacent", "src/character_sets.rs", "(self.start < other.start && self.end >= other.start - 1)", "(self.start < other.start && self.end >= other.start)", ["C20"], "adjacent intervals no longer unite (one direction)"),
 ("c20-partial-cmp-touching", "src/character_sets.rs", "        } else if self.end < other.start {\n            Some(Ordering::Less)", "        } else if self.end <= other.start {\n            Some(Ordering::Less)", ["C20", "C11"], "intervals sharing an end point are ordered"),
 ("c07-dedup-dropped", "src/regular_expressions.rs", "        v.sort();\n        v.dedup();\n        if contains(v, top) {", "        v.sort();\n        if contains(v, top) {", ["C07", "C01", "C19"], "duplicate operands survive in unions/intersections"),
 ("c11-class-of-char-before", "src/character_sets.rs", "    pub fn is_before(&self, x: u32) -> bool {\n        self.end < x\n    }", "    pub fn is_before(&self, x: u32) -> bool {\n        self.end <= x\n    }", ["C11", "C20", "C02"], "is_before includes the end point"),
 ("c14-table-default-inverted", "src/automata.rs", ".filter(|(_, &c)| !s.char_maps_to_default(c))", ".filter(|(_, &c)| s.classes.class_of_char(c) != ClassId::Complement)", ["C14", "C04"], "cells of states without default successor that fall in the complement are dropped"),
 ("c05-witness-skip-nullable-start", "src/regular_expressions.rs", "                for cid in r.class_ids() {\n                    let d = self.class_derivative_unchecked(r, cid);\n                    queue.push(r, cid, d);\n                }", "                for cid in r.class_ids().skip(if r.num_deriv_classes() > 3 { 1 } else { 0 }) {\n                    let d = self.class_derivative_unchecked(r, cid);\n                    queue.push(r, cid, d);\n                }", ["C05"], "witness search skips the first class of terms with many classes"),
]

def sh(cmd, **kw):
    return subprocess.run(cmd, stdout=subprocess.PIPE, stderr=subprocess.STDOUT, text=True, **kw)

def main():
    only = sys.argv[1:] 
    if not os.path.exists(WT):
        r = sh(["git", "-C", REPO, "worktree", "add", "-q", "--detach", WT, "HEAD"])
        assert r.returncode == 0, r.stdout
    else:
        sh(["git", "-C", WT, "checkout", "-q", "--detach", sh(["git","-C",REPO,"rev-parse","HEAD"]).stdout.strip()])
    env = dict(os.environ, CARGO_TARGET_DIR=WT + "/target", CARGO_NET_OFFLINE="true")
    for name, f, old, new, props, what in M:
        if only and name not in only:
            continue
        sh(["git", "-C", WT, "checkout", "--", "."])
        path = os.path.join(WT, f)
        s = open(path).read()
        if s.count(old) != 1:
            print("%-36s SKIP: pattern occurs %d times" % (name, s.count(old)))
            continue
        open(path, "w").write(s.replace(old, new))
        r = sh(["cargo", "test", "--offline"], cwd=WT, env=env)
        ok = r.returncode == 0
        tail = [l for l in r.stdout.splitlines() if l.startswith("test result") or "error" in l[:10]]
        if not ok:
            print("%-36s REJECTED (build/tests fail): %s" % (name, " | ".join(tail[:2])[:150]))
            d = os.path.join(OUT, name)
            if os.path.isdir(d):
                shutil.rmtree(d)
            continue
        d = os.path.join(OUT, name)
        os.makedirs(d, exist_ok=True)
        diff = sh(["git", "-C", WT, "diff"]).stdout
        open(os.path.join(d, "patch.diff"), "w").write(diff)
        json.dump({"name": name, "breaks": props, "what": what, "origin": "hand-written single-site mutation (DESIGN.md 'must catch' list)",
                   "verified": "compiles; `cargo test --offline` (60 unit + doc tests) passes with the patch",
                   "base_commit": sh(["git","-C",REPO,"rev-parse","--short","HEAD"]).stdout.strip()},
                  open(os.path.join(d, "meta.json"), "w"), indent=1)
        print("%-36s kept (%s)" % (name, ",".join(props)))
    sh(["git", "-C", WT, "checkout", "--", "."])

main()
