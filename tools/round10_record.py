import json,sys,re
last=json.load(open('/verif/work/targeted_last.json'))
desc=json.load(open('/tmp/r10desc.json'))
rows=[]
for d,(pr,v) in last.items():
    i=d.split('/')[-1]
    caught = v[0]==1
    meta={"id":i,"breaks":pr,
      "origin":"fresh sub-agent given only the text of property %s and a scratch worktree of /repo (nothing from /verif); asked for one change that needs something specific to manifest (round 10, one agent per property)"%pr,
      "change_and_needs":desc[i],
      "confirmed":"tools/mutant.py verify: `cargo test --offline` (60 unit + 101 doc tests) passes with the patch; demo.rs fails with the patch and passes without it (scratch worktree, removed afterwards)",
      "ran":"tools/mutant.py targeted (the quick check of the targeted property, seed 1, scratch copies); first line of the report: "+str(v[2]),
      "caught_by":[pr] if caught else [],"targeted_check_catches":caught,"first_pass_missed":not caught}
    json.dump(meta,open('/verif/%s/meta.json'%d,'w'),indent=1)
    open('/verif/%s/notes.md'%d,'w').write("PROPERTY: %s\n\n%s\n"%(pr,desc[i]))
    rows.append("| %s | %s | %s |"%(i,desc[i],("**%s**"%pr) if caught else "- (missed)"))
    open('/verif/seeded/REGRESSION.log','a').write("%-36s target=%s rc=%s %s\n"%(d,pr,v[0],v[2]))
print("\n".join(sorted(rows)))
