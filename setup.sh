#!/bin/sh
# Warm build of the harness (offline, both profiles). Checks rebuild on demand anyway.
set -e
cd "$(dirname "$0")"
exec ./check build
