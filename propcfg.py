"""Per-property configuration of the driver: level, evidence texts, starvation minimums (quick, thorough)."""

COMMON_ASSUME = [
    "reference engine (RefDfa over atoms + DP matcher) is correct; the two are cross-checked on every run and a disagreement is reported as inconclusive, never as a violation",
    "break-point principle: functions that are piecewise constant between the interval end points an object exposes are probed at every end point, its neighbours and one interior point per segment",
    "workload bounded by operation counts; cases whose reference DFA or derivative closure exceeds the budget are skipped and counted",
]

PROPS = {
    "C01": {
        "level": "exploration",
        "rule": "case = one constructor call of a generated construction program (20-60 calls, shared sub-terms, 5 profiles, ReManager methods and re_* wrappers); distinct key = API surface + rendering of the SMT-LIB construction DAG; non-trivial = construction with at least 3 nodes",
        "explanation": "per constructor call: RefDfa(call applied to operand terms) == RefDfa(result term AST); end to end: RefDfa(construction) == RefDfa(term); str_in_re vs RefDfa on exhaustive short + guided + random words; nullable vs structural epsilon membership for results and for every term in the manager's store",
        "assumptions": COMMON_ASSUME,
        "min_counters": {"rewrite_checked": (5000, 50000), "member_checks": (200000, 2000000), "store_terms_walked": (20000, 200000)},
    },
    "C02": {
        "level": "translation_validation",
        "programs_counter": "automata_validated",
        "rule": "case = one term of a generated construction program handed to compile/try_compile; distinct key = rendering of the construction DAG; non-trivial = construction with at least 3 nodes",
        "explanation": "each compiled automaton is observed through states()/state()/next()/is_final() at 3 probes per (state, joint atom) cell and decided language-equivalent to RefDfa(term AST) by product BFS; totality = no cell panics; accepts/str_next re-checked on words; sampled full-alphabet sweeps of next()",
        "assumptions": COMMON_ASSUME,
        "min_counters": {"automata_validated": (5000, 50000), "cells_probed": (500000, 5000000), "automata_swept_over_full_alphabet": (50, 2000)},
    },
    "C03": {
        "level": "exploration",
        "rule": "case = one term of a generated program; for it every class id, every break-point character of every class, all pairs of break points as sets, invalid ids, random words; plus every key of the derivative cache re-queried through class_derivative; distinct key = construction DAG; non-trivial = at least 3 nodes",
        "explanation": "L(derivative) is compared with the state reached in RefDfa(term AST) after the character (exact quotient equivalence); set_derivative Ok/Err is compared with the set-theoretic position of the set relative to the exposed class intervals",
        "assumptions": COMMON_ASSUME,
        "min_counters": {"class_char_probes": (50000, 500000), "set_derivative_probes": (100000, 1000000), "cache_entry_probes": (5000, 100000), "invalid_class_id_probes": (10000, 100000)},
    },
    "C05": {
        "level": "exploration",
        "rule": "case = one term (program result or sampled store term); distinct key = construction DAG; non-trivial = at least 3 nodes",
        "explanation": "is_empty_re vs emptiness of RefDfa(term AST); get_string None iff empty, witness is_good and accepted by RefDfa, DP matcher, str_in_re and compile(e)",
        "assumptions": COMMON_ASSUME,
        "min_counters": {"witnesses_checked": (5000, 50000), "terms_semantically_but_not_syntactically_empty": (300, 3000)},
    },
    "C18": {
        "level": "exploration",
        "rule": "case = one term x all its break-point characters and class ids; distinct key = construction DAG; non-trivial = at least 3 nodes",
        "explanation": "start_char(e,c) vs non-emptiness of the state reached in RefDfa(term AST) after c; start_class vs the same for every probe of the class; invalid ids must give BadClassId",
        "assumptions": COMMON_ASSUME,
        "min_counters": {"start_char_probes": (100000, 1000000), "start_char_true_answers": (10000, 100000)},
    },
    "C19": {
        "level": "exploration",
        "rule": "case = one term: its derivative closure pulled item by item, an independent BFS with char_derivative on all break-point characters, and try_compile at bounds {0,1,count-1,count,count+1,2count,MAX}; termination restated as bounded progress on the calibrated small profile; distinct key = construction DAG; non-trivial = at least 3 nodes",
        "explanation": "set equality between iter_derivatives and the independent closure, first element, no duplicates, count >= Myhill-Nerode index from RefDfa, try_compile Some iff n >= count, num_states == count",
        "assumptions": COMMON_ASSUME + ["termination is only checked as: on the small profile (<=12 constructor calls, loop bounds <=3) the iterator ends within 50000 items"],
        "min_counters": {"closures_enumerated": (5000, 50000), "try_compile_bound_probes": (20000, 200000), "small_profile_programs": (500, 5000)},
    },
    "C06": {
        "level": "exploration",
        "exhaustive": False,
        "rule": "exhaustive part: all pairs of strings of length <= 4 (thorough 5) over {a,b} x 14 boundary integers for the index x 7 for the length, x 3 replacement texts; random part: strings up to length 40 over 5 letters incl. 0 and 0x2FFFF with planted/overlapping occurrences and indices near i32 limits. distinct key = argument tuple (exhaustive part: the pair of strings); non-trivial = every tuple of the random part and every pair of the exhaustive part",
        "explanation": "each of str_concat, str_len, str_at, str_substr, str_prefixof, str_suffixof, str_contains, str_indexof, str_replace, str_replace_all is compared on every tuple with a declarative definition written from the SMT-LIB 2.6 text; a panic is a violation",
        "assumptions": ["the declarative definitions in oracle/smt.rs transcribe SMT-LIB 2.6 correctly (cross-checked once against cvc5 1.0 at the contested boundaries: indexof of the empty pattern at index = length)"],
        "min_counters": {"function_evaluations": (1000000, 10000000)},
    },
    "C08": {
        "level": "exploration",
        "rule": "texts: ALL texts up to length 6 (thorough, release build: 7) over the 10 symbols \\ u { } \" 0 a F g 2, plus random texts up to length 40; strings: ALL sequences up to length 4 (thorough 5) over 12 code points that spell escapes, all 196608 single code points, random strings. distinct key = the text / string; non-trivial = exhaustive texts of length >= 3 starting with a backslash, exhaustive strings containing a backslash, all random ones",
        "explanation": "parse_smt_literal vs a grammar-level parser sharing no state machine with the crate; Display must be printable ASCII in double quotes with doubled quotes, and its body read back by BOTH parsers must be the original string; char_to_smt / smt_char_as_string must agree with Display",
        "assumptions": ["the grammar-level parser in oracle/smt.rs transcribes the SMT-LIB 2.6 escape grammar: backslash-u + 4 hex digits, or backslash-u{1-5 hex digits} with value <= 0x2FFFF, anything else verbatim"],
        "min_counters": {"texts_parsed": (1000000, 10000000), "strings_printed": (200000, 400000), "single_code_points": (393216, 393216)},
    },
    "C09": {
        "level": "exploration",
        "rule": "order: all pairs of strings of length <= 3 over {0,a,b,0x2FFFF} + random triples; to_int: all digit strings of length <= 5, +-20 around 2^31, 2^32, 10^10, 2^33, 2^63, 2^64, 3*2^31, 5*2^30, random 1-20 digit strings, one non-digit at a random position; codes: all of [-3,0x30003]; from_int: boundaries + random. Both build profiles run the same inputs. distinct key = input; non-trivial = pairs/triples, boundary and random numerals",
        "explanation": "str_lt/str_le vs Rust slice order; str_to_int vs u128 arithmetic, and when the value exceeds i32::MAX the call must panic in BOTH the release build (no overflow checks) and the dbg build; code/int round trips",
        "assumptions": ["the documented behaviour of str_to_int on overflow is a panic (doc comment of the function)"],
        "min_counters": {"to_int_probes": (200000, 300000), "to_int_overflow_cases": (1000, 10000), "order_probes": (10000, 100000), "code_probes": (390000, 390000)},
    },
    "C15": {
        "level": "exploration",
        "exhaustive": True,
        "rule": "ALL ranges with start <= 8 and end <= 10 or infinite (72 ranges), all 5184 ordered pairs, all scale factors <= 8, plus large-value probes for overflow; distinct key = the range or pair; every case non-trivial",
        "explanation": "ranges are read as explicit sets of naturals (exact up to 128); add vs set of sums, scale vs k-fold sum, shift vs predecessors, contains/includes vs membership/inclusion, mul contains all products, right_mul_is_exact(r,s) iff union over y in s of the y-fold sums of r equals r.mul(s); on large values a documented overflow panic is accepted and a wrapped result is a violation",
        "assumptions": ["truncation at 128 is exact for the enumerated domain (all finite results are <= 100; gaps of infinite unions appear below 82)"],
        "min_counters": {"pairs": (10368, 10368), "singles": (144, 144)},
    },
    "C17": {
        "level": "exploration",
        "rule": "integer constructors over 14 boundary values (singles and pairs) and random u32 slices; From<char>/From<&str>/From<String>/parse_smt_literal over ALL chars in U+2FF00..U+30100 and U+10FF00..U+10FFFF (alone and embedded) and random strings; results of str_* functions, regex replace and get_string on well-formed inputs. distinct key = input; all non-trivial",
        "explanation": "every produced SmtString must be is_good with all elements <= 0x2FFFF, valid values kept, invalid integers replaced by 0xFFFD, and ReManager::str of the string must not panic and must contain it",
        "assumptions": [],
        "min_counters": {"strings_checked": (50000, 500000), "rust_string_probes": (5000, 50000), "get_string_results_checked": (500, 5000)},
    },
}
