"""Per-property configuration of the driver: level, evidence texts, starvation minimums (quick, thorough)."""

COMMON_ASSUME = [
    "reference engine (RefDfa over atoms + DP matcher) is correct; the two are cross-checked on every run and a disagreement is reported as inconclusive, never as a violation",
    "break-point principle: functions that are piecewise constant between the interval end points an object exposes are probed at every end point, its neighbours and one interior point per segment",
    "workload bounded by operation counts; cases whose reference DFA or derivative closure exceeds the budget are skipped and counted",
]

PROPS = {
    "C01": {
        "level": "exploration",
        "rule": "case = one constructor call of a generated construction program (20-60 calls, shared sub-terms, 5 profiles, ReManager methods and re_* wrappers); distinct key = API surface + rendering of the SMT-LIB construction DAG; non-trivial = construction with at least 3 nodes",
        "explanation": "per constructor call: RefDfa(call applied to operand terms) == RefDfa(result term AST); end to end: RefDfa(construction) == RefDfa(term); str_in_re vs RefDfa on exhaustive short + guided + random words; nullable vs structural epsilon membership for results and for every term in the manager's store",
        "assumptions": COMMON_ASSUME,
        "min_counters": {"rewrite_checked": (5000, 50000), "member_checks": (200000, 2000000), "store_terms_walked": (20000, 200000)},
    },
}
