"""Per-property configuration of the driver: level, evidence texts, starvation minimums (quick, thorough)."""

COMMON_ASSUME = [
    "reference engine (RefDfa over atoms + DP matcher) is correct; the two are cross-checked on every run and a disagreement is reported as inconclusive, never as a violation",
    "break-point principle: functions that are piecewise constant between the interval end points an object exposes are probed at every end point, its neighbours and one interior point per segment",
    "workload bounded by operation counts; cases whose reference DFA or derivative closure exceeds the budget are skipped and counted",
]

PROPS = {
    "C01": {
        "level": "exploration",
        "rule": "case = one constructor call of a generated construction program (20-60 calls, shared sub-terms, 5 profiles, ReManager methods and re_* wrappers); distinct key = API surface + rendering of the SMT-LIB construction DAG; non-trivial = construction with at least 3 nodes",
        "explanation": "per constructor call: RefDfa(call applied to operand terms) == RefDfa(result term AST); end to end: RefDfa(construction) == RefDfa(term); str_in_re vs RefDfa on exhaustive short + guided + random words; nullable vs structural epsilon membership for results and for every term in the manager's store",
        "assumptions": COMMON_ASSUME,
        "min_counters": {"rewrite_checked": (5000, 50000), "member_checks": (200000, 2000000), "store_terms_walked": (20000, 200000)},
    },
    "C02": {
        "level": "translation_validation",
        "programs_counter": "automata_validated",
        "rule": "case = one term of a generated construction program handed to compile/try_compile; distinct key = rendering of the construction DAG; non-trivial = construction with at least 3 nodes",
        "explanation": "each compiled automaton is observed through states()/state()/next()/is_final() at 3 probes per (state, joint atom) cell and decided language-equivalent to RefDfa(term AST) by product BFS; totality = no cell panics; accepts/str_next re-checked on words; sampled full-alphabet sweeps of next()",
        "assumptions": COMMON_ASSUME,
        "min_counters": {"automata_validated": (5000, 50000), "cells_probed": (500000, 5000000), "automata_swept_over_full_alphabet": (50, 2000)},
    },
    "C03": {
        "level": "exploration",
        "rule": "case = one term of a generated program; for it every class id, every break-point character of every class, all pairs of break points as sets, invalid ids, random words; plus every key of the derivative cache re-queried through class_derivative; distinct key = construction DAG; non-trivial = at least 3 nodes",
        "explanation": "L(derivative) is compared with the state reached in RefDfa(term AST) after the character (exact quotient equivalence); set_derivative Ok/Err is compared with the set-theoretic position of the set relative to the exposed class intervals",
        "assumptions": COMMON_ASSUME,
        "min_counters": {"class_char_probes": (50000, 500000), "set_derivative_probes": (100000, 1000000), "cache_entry_probes": (5000, 100000), "invalid_class_id_probes": (10000, 100000)},
    },
    "C05": {
        "level": "exploration",
        "rule": "case = one term (program result or sampled store term); distinct key = construction DAG; non-trivial = at least 3 nodes",
        "explanation": "is_empty_re vs emptiness of RefDfa(term AST); get_string None iff empty, witness is_good and accepted by RefDfa, DP matcher, str_in_re and compile(e)",
        "assumptions": COMMON_ASSUME,
        "min_counters": {"witnesses_checked": (5000, 50000), "terms_semantically_but_not_syntactically_empty": (300, 3000)},
    },
    "C18": {
        "level": "exploration",
        "rule": "case = one term x all its break-point characters and class ids; distinct key = construction DAG; non-trivial = at least 3 nodes",
        "explanation": "start_char(e,c) vs non-emptiness of the state reached in RefDfa(term AST) after c; start_class vs the same for every probe of the class; invalid ids must give BadClassId",
        "assumptions": COMMON_ASSUME,
        "min_counters": {"start_char_probes": (100000, 1000000), "start_char_true_answers": (10000, 100000)},
    },
    "C19": {
        "level": "exploration",
        "rule": "case = one term: its derivative closure pulled item by item, an independent BFS with char_derivative on all break-point characters, and try_compile at bounds {0,1,count-1,count,count+1,2count,MAX}; termination restated as bounded progress on the calibrated small profile; distinct key = construction DAG; non-trivial = at least 3 nodes",
        "explanation": "set equality between iter_derivatives and the independent closure, first element, no duplicates, count >= Myhill-Nerode index from RefDfa, try_compile Some iff n >= count, num_states == count",
        "assumptions": COMMON_ASSUME + ["termination is only checked as: on the small profile (<=12 constructor calls, loop bounds <=3) the iterator ends within 50000 items"],
        "min_counters": {"closures_enumerated": (5000, 50000), "try_compile_bound_probes": (20000, 200000), "small_profile_programs": (500, 5000)},
    },
}
