//! Shared utilities: PRNG, JSON writer, panic guard, shard report.

use std::collections::{BTreeMap, HashSet};
use std::fmt::Write as _;
use std::panic::{catch_unwind, AssertUnwindSafe};

// ---------------------------------------------------------------- PRNG

/// xorshift64* generator; deterministic per (seed, shard, stream)
#[derive(Clone)]
pub struct Rng(u64);

impl Rng {
    pub fn new(seed: u64) -> Rng {
        // splitmix to spread small seeds
        let mut z = seed.wrapping_add(0x9E3779B97F4A7C15);
        z = (z ^ (z >> 30)).wrapping_mul(0xBF58476D1CE4E5B9);
        z = (z ^ (z >> 27)).wrapping_mul(0x94D049BB133111EB);
        z ^= z >> 31;
        Rng(if z == 0 { 0x1234567 } else { z })
    }
    pub fn derive(seed: u64, a: u64, b: u64) -> Rng {
        Rng::new(seed ^ a.wrapping_mul(0xD6E8FEB86659FD93) ^ b.wrapping_mul(0xA0761D6478BD642F).rotate_left(17))
    }
    pub fn next(&mut self) -> u64 {
        let mut x = self.0;
        x ^= x >> 12;
        x ^= x << 25;
        x ^= x >> 27;
        self.0 = x;
        x.wrapping_mul(0x2545F4914F6CDD1D)
    }
    /// uniform in [0, n)
    pub fn below(&mut self, n: u64) -> u64 {
        debug_assert!(n > 0);
        (self.next() >> 11) % n
    }
    pub fn usize(&mut self, n: usize) -> usize {
        self.below(n as u64) as usize
    }
    /// uniform in [lo, hi]
    pub fn range(&mut self, lo: u64, hi: u64) -> u64 {
        lo + self.below(hi - lo + 1)
    }
    pub fn chance(&mut self, num: u64, den: u64) -> bool {
        self.below(den) < num
    }
    pub fn pick<'a, T>(&mut self, v: &'a [T]) -> &'a T {
        &v[self.usize(v.len())]
    }
    pub fn shuffle<T>(&mut self, v: &mut [T]) {
        for i in (1..v.len()).rev() {
            let j = self.usize(i + 1);
            v.swap(i, j);
        }
    }
    /// weighted choice: returns index
    pub fn weighted(&mut self, w: &[u32]) -> usize {
        let total: u64 = w.iter().map(|&x| x as u64).sum();
        let mut r = self.below(total.max(1));
        for (i, &x) in w.iter().enumerate() {
            if r < x as u64 {
                return i;
            }
            r -= x as u64;
        }
        w.len() - 1
    }
}

// ---------------------------------------------------------------- hashing

pub fn fnv(s: &str) -> u64 {
    let mut h: u64 = 0xcbf29ce484222325;
    for b in s.bytes() {
        h ^= b as u64;
        h = h.wrapping_mul(0x100000001b3);
    }
    h
}

// ---------------------------------------------------------------- JSON

pub fn json_str(s: &str) -> String {
    let mut o = String::with_capacity(s.len() + 2);
    o.push('"');
    for c in s.chars() {
        match c {
            '"' => o.push_str("\\\""),
            '\\' => o.push_str("\\\\"),
            '\n' => o.push_str("\\n"),
            '\r' => o.push_str("\\r"),
            '\t' => o.push_str("\\t"),
            c if (c as u32) < 0x20 => {
                let _ = write!(o, "\\u{:04x}", c as u32);
            }
            c => o.push(c),
        }
    }
    o.push('"');
    o
}

// ---------------------------------------------------------------- panic guard

thread_local!(static LAST_PANIC: std::cell::RefCell<String> = const { std::cell::RefCell::new(String::new()) });

pub fn install_panic_hook() {
    std::panic::set_hook(Box::new(|info| {
        let loc = info.location().map(|l| format!("{}:{}", l.file(), l.line())).unwrap_or_default();
        let msg = if let Some(s) = info.payload().downcast_ref::<&str>() {
            s.to_string()
        } else if let Some(s) = info.payload().downcast_ref::<String>() {
            s.clone()
        } else {
            "panic".to_string()
        };
        if std::env::var("SMTMON_BACKTRACE").is_ok() {
            eprintln!("panic: {} @ {}\n{}", msg, loc, std::backtrace::Backtrace::force_capture());
        }
        LAST_PANIC.with(|p| *p.borrow_mut() = format!("{} @ {}", msg, loc));
    }));
}

/// Run f, turning a panic into Err(message @ location)
pub fn guard<T>(f: impl FnOnce() -> T) -> Result<T, String> {
    match catch_unwind(AssertUnwindSafe(f)) {
        Ok(x) => Ok(x),
        Err(_) => Err(LAST_PANIC.with(|p| p.borrow().clone())),
    }
}

/// true if the panic message comes from the harness itself (a bug in the monitor, not an observation)
pub fn panic_in_harness(msg: &str) -> bool {
    msg.contains("harness/src") || msg.contains("/verif/")
}

// ---------------------------------------------------------------- report

#[derive(Clone, Debug)]
pub struct Violation {
    pub rule: String,
    pub sig: String,
    pub detail: String,
    pub kind: String,
    pub case: String,
    pub seed: u64,
}

pub struct Report {
    pub prop: String,
    pub profile: String,
    pub evaluations: u64,
    pub counters: BTreeMap<String, u64>,
    pub hists: BTreeMap<String, BTreeMap<String, u64>>,
    pub samples: Vec<String>,
    pub distinct: HashSet<u64>,
    pub violations: Vec<Violation>,
    pub violation_count: u64,
    pub harness_errors: Vec<String>,
    pub max_samples: usize,
    /// ground SMT-LIB equalities (expected to be valid) for the non-gating cvc5 cross-check
    pub xchecks: Vec<String>,
}

impl Report {
    pub fn new(prop: &str, profile: &str) -> Report {
        Report {
            prop: prop.to_string(),
            profile: profile.to_string(),
            evaluations: 0,
            counters: BTreeMap::new(),
            hists: BTreeMap::new(),
            samples: Vec::new(),
            distinct: HashSet::new(),
            violations: Vec::new(),
            violation_count: 0,
            harness_errors: Vec::new(),
            max_samples: 6,
            xchecks: Vec::new(),
        }
    }
    pub fn count(&mut self, key: &str, n: u64) {
        *self.counters.entry(key.to_string()).or_insert(0) += n;
    }
    pub fn inc(&mut self, key: &str) {
        self.count(key, 1)
    }
    pub fn max(&mut self, key: &str, v: u64) {
        let e = self.counters.entry(format!("max_{}", key)).or_insert(0);
        if v > *e {
            *e = v;
        }
    }
    pub fn hist(&mut self, h: &str, bucket: &str) {
        *self.hists.entry(h.to_string()).or_default().entry(bucket.to_string()).or_insert(0) += 1;
    }
    pub fn sample(&mut self, s: impl FnOnce() -> String) {
        if self.samples.len() < self.max_samples {
            let t = s();
            self.samples.push(t);
        }
    }
    /// one executed case; `nontrivial_key` = canonical text if the case is non-trivial by the monitor's rule
    pub fn eval(&mut self, nontrivial_key: Option<&str>) {
        self.evaluations += 1;
        if let Some(k) = nontrivial_key {
            self.distinct.insert(fnv(k));
        }
    }
    pub fn evals(&mut self, n: u64) {
        self.evaluations += n;
    }
    pub fn distinct_key(&mut self, k: &str) {
        self.distinct.insert(fnv(k));
    }
    pub fn violation(&mut self, rule: &str, sig: &str, detail: String, kind: &str, case: &str, seed: u64) {
        self.violation_count += 1;
        // keep at most 3 per rule, 25 overall
        let same = self.violations.iter().filter(|v| v.rule == rule).count();
        if same < 3 && self.violations.len() < 25 {
            self.violations.push(Violation {
                rule: rule.to_string(),
                sig: sig.to_string(),
                detail,
                kind: kind.to_string(),
                case: case.to_string(),
                seed,
            });
        }
    }
    /// record a ground SMT-LIB boolean term that must be valid (at most 60 per shard)
    pub fn xcheck(&mut self, term: impl FnOnce() -> String) {
        if self.xchecks.len() < 60 {
            let t = term();
            self.xchecks.push(t);
        }
    }
    pub fn harness_error(&mut self, msg: String) {
        if self.harness_errors.len() < 10 {
            self.harness_errors.push(msg);
        }
    }

    pub fn to_json(&self) -> String {
        let mut o = String::new();
        o.push('{');
        let _ = write!(o, "\"property\":{},\"profile\":{},\"evaluations\":{},", json_str(&self.prop), json_str(&self.profile), self.evaluations);
        let _ = write!(o, "\"distinct_local\":{},\"violation_count\":{},", self.distinct.len(), self.violation_count);
        o.push_str("\"counters\":{");
        let mut first = true;
        for (k, v) in &self.counters {
            if !first {
                o.push(',');
            }
            first = false;
            let _ = write!(o, "{}:{}", json_str(k), v);
        }
        o.push_str("},\"hists\":{");
        first = true;
        for (k, h) in &self.hists {
            if !first {
                o.push(',');
            }
            first = false;
            let _ = write!(o, "{}:{{", json_str(k));
            let mut f2 = true;
            for (b, v) in h {
                if !f2 {
                    o.push(',');
                }
                f2 = false;
                let _ = write!(o, "{}:{}", json_str(b), v);
            }
            o.push('}');
        }
        o.push_str("},\"samples\":[");
        for (i, s) in self.samples.iter().enumerate() {
            if i > 0 {
                o.push(',');
            }
            o.push_str(&json_str(s));
        }
        o.push_str("],\"violations\":[");
        for (i, v) in self.violations.iter().enumerate() {
            if i > 0 {
                o.push(',');
            }
            let _ = write!(
                o,
                "{{\"rule\":{},\"sig\":{},\"detail\":{},\"kind\":{},\"case\":{},\"seed\":{}}}",
                json_str(&v.rule),
                json_str(&v.sig),
                json_str(&v.detail),
                json_str(&v.kind),
                json_str(&v.case),
                v.seed
            );
        }
        o.push_str("],\"harness_errors\":[");
        for (i, s) in self.harness_errors.iter().enumerate() {
            if i > 0 {
                o.push(',');
            }
            o.push_str(&json_str(s));
        }
        o.push_str("],\"xchecks\":[");
        for (i, s) in self.xchecks.iter().enumerate() {
            if i > 0 {
                o.push(',');
            }
            o.push_str(&json_str(s));
        }
        o.push_str("]}");
        o
    }

    pub fn hashes_bytes(&self) -> Vec<u8> {
        let mut v: Vec<u64> = self.distinct.iter().copied().collect();
        v.sort_unstable();
        let mut out = Vec::with_capacity(v.len() * 8);
        for h in v {
            out.extend_from_slice(&h.to_le_bytes());
        }
        out
    }
}

/// Parameters of one shard run
#[derive(Clone, Debug)]
pub struct Params {
    pub prop: String,
    pub seed: u64,
    pub shard: u64,
    pub nshards: u64,
    pub thorough: bool,
    pub profile: String,
    /// scale factor (percent) applied to workload sizes, for calibration
    pub scale: u64,
}

impl Params {
    pub fn rng(&self, stream: u64) -> Rng {
        Rng::derive(self.seed, self.shard + 1, stream)
    }
    /// choose workload size by tier, scaled
    pub fn size(&self, quick: u64, thorough: u64) -> u64 {
        let n = if self.thorough { thorough } else { quick };
        (n * self.scale / 100).max(1)
    }
}

pub fn show_str(w: &[u32]) -> String {
    let mut o = String::from("[");
    for (i, c) in w.iter().enumerate() {
        if i > 0 {
            o.push(' ');
        }
        let _ = write!(o, "{:x}", c);
    }
    o.push(']');
    o
}

pub fn short(s: &str, n: usize) -> String {
    if s.chars().count() > n {
        let cut: String = s.chars().take(n).collect();
        format!("{}…", cut)
    } else {
        s.to_string()
    }
}

impl Report {
    /// merge a report produced on another thread
    pub fn absorb(&mut self, o: Report) {
        self.evaluations += o.evaluations;
        for (k, v) in o.counters {
            if k.starts_with("max_") {
                let e = self.counters.entry(k).or_insert(0);
                if v > *e {
                    *e = v;
                }
            } else {
                *self.counters.entry(k).or_insert(0) += v;
            }
        }
        for (h, b) in o.hists {
            let d = self.hists.entry(h).or_default();
            for (k, v) in b {
                *d.entry(k).or_insert(0) += v;
            }
        }
        self.distinct.extend(o.distinct);
        self.violation_count += o.violation_count;
        for v in o.violations {
            if self.violations.len() < 25 {
                self.violations.push(v);
            }
        }
        self.harness_errors.extend(o.harness_errors);
        for x in o.xchecks {
            if self.xchecks.len() < 60 {
                self.xchecks.push(x);
            }
        }
    }
}

/// The laws every `Iterator` must obey, checked on a factory of fresh iterators over the same sequence: whatever
/// std adaptor drives the iterator (`count`, `last`, `nth`, `skip`, `step_by`, `by_ref` + `collect`), from a fresh,
/// a partially consumed or an exhausted iterator, the result is the one the plain `next()` sequence gives, and
/// nothing panics (`size_hint` is called at every stage for that reason; its numbers are not judged, see DESIGN 13).
/// Items are compared through `key`. Err(description) on the first law broken.
pub fn iter_laws_by<T, K: PartialEq + std::fmt::Debug, I: Iterator<Item = T>>(mk: impl Fn() -> I, key: impl Fn(&T) -> K) -> Result<usize, String> {
    match guard(|| iter_laws_inner(&mk, &key)) {
        Ok(r) => r,
        Err(msg) => Err(format!("an iterator method panicked: {}", msg)),
    }
}

fn iter_laws_inner<T, K: PartialEq + std::fmt::Debug, I: Iterator<Item = T>>(mk: &impl Fn() -> I, key: &impl Fn(&T) -> K) -> Result<usize, String> {
    let full: Vec<K> = mk().map(|x| key(&x)).collect();
    let n = full.len();
    if mk().count() != n {
        return Err(format!("count() = {} but collecting yields {} items", mk().count(), n));
    }
    let again: Vec<K> = mk().map(|x| key(&x)).collect();
    if again != full {
        return Err("two fresh iterators over the same object yield different sequences".into());
    }
    let mut it = mk();
    for used in 0..=n {
        let _ = it.size_hint();
        let x = it.next().map(|x| key(&x));
        if x.as_ref() != full.get(used) {
            return Err(format!("item {} differs between two runs: {:?} vs {:?}", used, x, full.get(used)));
        }
    }
    // the exhausted iterator: stays exhausted, and every way of asking it for more gives nothing
    let _ = it.size_hint();
    if it.next().is_some() {
        return Err("next() yields an item after it returned None".into());
    }
    let _ = it.size_hint();
    let more: std::collections::VecDeque<K> = it.by_ref().map(|x| key(&x)).collect();
    if !more.is_empty() || it.by_ref().count() != 0 || it.nth(0).is_some() || it.last().is_some() {
        return Err("the exhausted iterator yields items through collect / count / nth / last".into());
    }
    let l = mk().last().map(|x| key(&x));
    if l.as_ref() != full.last() {
        return Err(format!("last() = {:?} but the last collected item is {:?}", l, full.last()));
    }
    for k in [0, 1, n / 2, n.saturating_sub(1), n, n + 1, n + 7, usize::MAX] {
        let got = mk().nth(k).map(|x| key(&x));
        if got.as_ref() != full.get(k) {
            return Err(format!("nth({}) = {:?} but item {} is {:?}", k, got, k, full.get(k)));
        }
        // what is left after nth(k)
        let mut it = mk();
        let _ = it.nth(k);
        let _ = it.size_hint();
        let rest: Vec<K> = it.by_ref().map(|x| key(&x)).collect();
        let want = if k < n { &full[k + 1..] } else { &full[n..] };
        if rest[..] != *want {
            return Err(format!("after nth({}) of {} items the rest is {:?}, expected {:?}", k, n, rest, want));
        }
        if it.nth(0).is_some() {
            return Err(format!("nth(0) after nth({}) and exhaustion yields an item", k));
        }
        // skip(k) as an adaptor
        let sk: Vec<K> = mk().skip(k).map(|x| key(&x)).collect();
        if sk[..] != full[k.min(n)..] {
            return Err(format!("skip({}) yields {:?}, expected {:?}", k, sk, &full[k.min(n)..]));
        }
    }
    for step in [2usize, 3] {
        let got: Vec<K> = mk().step_by(step).map(|x| key(&x)).collect();
        let want: Vec<&K> = full.iter().step_by(step).collect();
        if got.len() != want.len() || got.iter().zip(want.iter()).any(|(a, b)| a != *b) {
            return Err(format!("step_by({}) yields {:?}, expected {:?}", step, got, want));
        }
    }
    for j in [1, n / 2, n] {
        if j <= n {
            let mut it = mk();
            for _ in 0..j {
                let _ = it.next();
            }
            let _ = it.size_hint();
            let c = it.count();
            if c != n - j {
                return Err(format!("after {} next() calls out of {}, count() = {}", j, n, c));
            }
            let mut it = mk();
            for _ in 0..j {
                let _ = it.next();
            }
            let l = it.last().map(|x| key(&x));
            let want = if j < n { full.last() } else { None };
            if l.as_ref() != want {
                return Err(format!("after {} next() calls out of {}, last() = {:?}", j, n, l));
            }
        }
    }
    Ok(n)
}

pub fn iter_laws<T: PartialEq + std::fmt::Debug + Clone, I: Iterator<Item = T>>(mk: impl Fn() -> I) -> Result<usize, String> {
    iter_laws_by(mk, |x| x.clone())
}
