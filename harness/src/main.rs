//! smtmon: runtime monitors for aws-smt-strings (see /verif/DESIGN.md)
//!
//! smtmon run <PROP> --seed S --shard K --nshards N --tier quick|thorough --profile rel|dbg --out FILE [--scale PCT]
//! smtmon replay <PROP> --kind KIND --seed S --profile P   (case text on stdin)

mod gen;
mod mon;
mod oracle;
mod util;

use std::io::Read;
use util::*;

fn arg(args: &[String], name: &str) -> Option<String> {
    args.iter().position(|a| a == name).and_then(|i| args.get(i + 1).cloned())
}

fn real_main() -> i32 {
    let args: Vec<String> = std::env::args().collect();
    if args.len() < 2 || (args.len() < 3 && args[1] != "selftest") {
        eprintln!("usage: smtmon run|replay PROP ...");
        return 3;
    }
    let profile = if cfg!(debug_assertions) { "dbg" } else { "rel" };
    if let Some(p) = arg(&args, "--profile") {
        if p != profile {
            eprintln!("profile mismatch: binary is {}, asked {}", profile, p);
            return 3;
        }
    }
    let prop = args.get(2).cloned().unwrap_or_default();
    let seed: u64 = arg(&args, "--seed").and_then(|s| s.parse().ok()).unwrap_or(1);
    install_panic_hook();
    match args[1].as_str() {
        "run" => {
            let params = Params {
                prop: prop.clone(),
                seed,
                shard: arg(&args, "--shard").and_then(|s| s.parse().ok()).unwrap_or(0),
                nshards: arg(&args, "--nshards").and_then(|s| s.parse().ok()).unwrap_or(1),
                thorough: arg(&args, "--tier").map_or(false, |t| t == "thorough"),
                profile: profile.to_string(),
                scale: arg(&args, "--scale").and_then(|s| s.parse().ok()).unwrap_or(100),
            };
            let mut rep = Report::new(&prop, profile);
            let ok = mon::run(&params, &mut rep);
            if !ok {
                eprintln!("unknown property {}", prop);
                return 3;
            }
            let out = arg(&args, "--out");
            match out {
                Some(path) => {
                    std::fs::write(&path, rep.to_json()).expect("write report");
                    std::fs::write(format!("{}.hashes", path), rep.hashes_bytes()).expect("write hashes");
                }
                None => println!("{}", rep.to_json()),
            }
            0
        }
        "selftest" => match mon::selftest::run(seed, 400) {
            Ok(m) => {
                println!("{}", m);
                0
            }
            Err(m) => {
                println!("SELFTEST FAILED: {}", m);
                3
            }
        },
        "replay" => {
            let kind = arg(&args, "--kind").unwrap_or_default();
            let mut text = String::new();
            std::io::stdin().read_to_string(&mut text).expect("stdin");
            let mut rep = Report::new(&prop, profile);
            rep.max_samples = 0;
            let ok = mon::replay(&prop, &kind, &text, seed, &mut rep);
            if !ok {
                eprintln!("cannot replay kind {} for {}", kind, prop);
                return 3;
            }
            println!("{}", rep.to_json());
            if rep.violation_count > 0 {
                1
            } else {
                0
            }
        }
        _ => 3,
    }
}

fn main() {
    // deep probes run right here, on the ordinary main-thread stack (that is their point)
    let args: Vec<String> = std::env::args().collect();
    if args.len() >= 4 && args[1] == "deep" {
        let n: usize = args[3].parse().unwrap_or(1000);
        // automaton probes run on a 1 MiB thread stack (half of Rust's default for spawned threads): the crate's
        // automaton algorithms are iterative, so depth must not matter; literal probes use the main thread
        let kind = args[2].clone();
        let res = if kind.starts_with("auto") {
            std::thread::Builder::new().stack_size(1 << 20).spawn(move || mon::deep::child(&kind, n)).expect("spawn").join().unwrap_or_else(|_| Err("child thread panicked".to_string()))
        } else {
            mon::deep::child(&kind, n)
        };
        match res {
            Ok(line) => {
                println!("{}", line);
                std::process::exit(0);
            }
            Err(e) => {
                println!("error {}", e);
                std::process::exit(4);
            }
        }
    }
    // big stack: the crate recurses on term depth; a stack overflow would abort the process
    let h = std::thread::Builder::new().stack_size(1 << 30).spawn(real_main).expect("spawn");
    let code = h.join().unwrap_or(3);
    std::process::exit(code);
}
