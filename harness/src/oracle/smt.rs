//! Declarative definitions of the SMT-LIB 2.6 string functions over Vec<u32>, written from the
//! standard's text, and a grammar-level literal parser. Nothing here shares code with the crate.

pub const MAXC: u32 = 0x2FFFF;

pub fn concat(a: &[u32], b: &[u32]) -> Vec<u32> {
    let mut v = a.to_vec();
    v.extend_from_slice(b);
    v
}

/// str.substr(w, m, n): w2 with w = w1 w2 w3, |w1| = m, |w2| = min(n, |w| - m) if 0 <= m < |w| and 0 < n; else empty
pub fn substr(w: &[u32], m: i64, n: i64) -> Vec<u32> {
    let len = w.len() as i64;
    if 0 <= m && m < len && 0 < n {
        let l = n.min(len - m);
        w[m as usize..(m + l) as usize].to_vec()
    } else {
        vec![]
    }
}

/// str.at(w, n) = str.substr(w, n, 1)
pub fn at(w: &[u32], n: i64) -> Vec<u32> {
    substr(w, n, 1)
}

pub fn prefixof(p: &[u32], w: &[u32]) -> bool {
    p.len() <= w.len() && &w[..p.len()] == p
}

pub fn suffixof(s: &[u32], w: &[u32]) -> bool {
    s.len() <= w.len() && &w[w.len() - s.len()..] == s
}

fn occurs_at(w: &[u32], t: &[u32], n: usize) -> bool {
    n + t.len() <= w.len() && &w[n..n + t.len()] == t
}

/// str.contains(w, t): w = w1 t w3 for some w1, w3
pub fn contains(w: &[u32], t: &[u32]) -> bool {
    (0..=w.len()).any(|n| occurs_at(w, t, n))
}

/// str.indexof(w, t, i): least n >= i with an occurrence of t at n, provided 0 <= i <= |w|; else -1
pub fn indexof(w: &[u32], t: &[u32], i: i64) -> i64 {
    if i < 0 || i > w.len() as i64 {
        return -1;
    }
    for n in (i as usize)..=w.len() {
        if occurs_at(w, t, n) {
            return n as i64;
        }
    }
    -1
}

/// str.replace(w, t, r): first (leftmost) occurrence of t replaced by r; w if there is none
pub fn replace(w: &[u32], t: &[u32], r: &[u32]) -> Vec<u32> {
    for n in 0..=w.len() {
        if occurs_at(w, t, n) {
            let mut v = w[..n].to_vec();
            v.extend_from_slice(r);
            v.extend_from_slice(&w[n + t.len()..]);
            return v;
        }
    }
    w.to_vec()
}

/// str.replace_all(w, t, r): w if t is empty; otherwise u1 r replace_all(u2) at the leftmost occurrence
pub fn replace_all(w: &[u32], t: &[u32], r: &[u32]) -> Vec<u32> {
    if t.is_empty() {
        return w.to_vec();
    }
    for n in 0..=w.len() {
        if occurs_at(w, t, n) {
            let mut v = w[..n].to_vec();
            v.extend_from_slice(r);
            v.extend(replace_all(&w[n + t.len()..], t, r));
            return v;
        }
    }
    w.to_vec()
}

pub fn lt(a: &[u32], b: &[u32]) -> bool {
    a < b // Rust's slice order is the lexicographic order
}

pub fn le(a: &[u32], b: &[u32]) -> bool {
    a <= b
}

pub fn is_digit(w: &[u32]) -> bool {
    w.len() == 1 && (0x30..=0x39).contains(&w[0])
}

pub fn to_code(w: &[u32]) -> i64 {
    if w.len() == 1 {
        w[0] as i64
    } else {
        -1
    }
}

pub fn from_code(x: i64) -> Vec<u32> {
    if 0 <= x && x <= MAXC as i64 {
        vec![x as u32]
    } else {
        vec![]
    }
}

/// str.to_int as a big integer: None = not a numeral (-1 in SMT-LIB)
pub fn to_int(w: &[u32]) -> Option<u128> {
    if w.is_empty() || w.iter().any(|c| !(0x30..=0x39).contains(c)) {
        return None;
    }
    let mut x: u128 = 0;
    for &c in w {
        x = x.saturating_mul(10).saturating_add((c - 0x30) as u128);
    }
    Some(x)
}

pub fn from_int(x: i64) -> Vec<u32> {
    if x < 0 {
        vec![]
    } else {
        x.to_string().chars().map(|c| c as u32).collect()
    }
}

fn hexval(c: char) -> Option<u32> {
    c.to_digit(16)
}

/// Grammar-level reading of an SMT-LIB 2.6 string literal body (without the enclosing quotes and with
/// doubled quotes already undone): at each position try backslash-u + 4 hex digits, else \u{d0..d4} with value <= 0x2FFFF,
/// else copy one character.
pub fn parse_literal(text: &[char]) -> Vec<u32> {
    let mut out = Vec::new();
    let mut p = 0;
    let n = text.len();
    while p < n {
        if text[p] == '\\' && p + 1 < n && text[p + 1] == 'u' {
            // \u dddd
            if p + 6 <= n && text[p + 2..p + 6].iter().all(|c| hexval(*c).is_some() && c.is_ascii()) {
                let mut v = 0;
                for c in &text[p + 2..p + 6] {
                    v = v * 16 + hexval(*c).unwrap();
                }
                out.push(v);
                p += 6;
                continue;
            }
            // \u{d...}
            if p + 2 < n && text[p + 2] == '{' {
                let mut q = p + 3;
                let mut v: u32 = 0;
                let mut digits = 0;
                while q < n && digits < 5 && text[q].is_ascii() && hexval(text[q]).is_some() {
                    v = v * 16 + hexval(text[q]).unwrap();
                    q += 1;
                    digits += 1;
                }
                if digits >= 1 && q < n && text[q] == '}' && v <= MAXC {
                    out.push(v);
                    p = q + 1;
                    continue;
                }
            }
        }
        out.push(text[p] as u32);
        p += 1;
    }
    out
}

/// undo the doubling of quotes in a printed literal body; None if a lone quote occurs
pub fn undouble_quotes(body: &[char]) -> Option<Vec<char>> {
    let mut out = Vec::new();
    let mut i = 0;
    while i < body.len() {
        if body[i] == '"' {
            if i + 1 < body.len() && body[i + 1] == '"' {
                out.push('"');
                i += 2;
            } else {
                return None;
            }
        } else {
            out.push(body[i]);
            i += 1;
        }
    }
    Some(out)
}
