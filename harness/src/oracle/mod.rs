pub mod re;
pub mod smt;
pub mod smtlib;
pub mod snap;
