pub mod re;
pub mod smt;
pub mod snap;
