//! Reference semantics for regular expressions, independent of the crate's algorithms.
//!
//! * `Ref`      — DAG of mathematical operators with the SMT-LIB meaning
//! * `Atoms`    — elementary intervals of the alphabet
//! * `Dfa`      — complete DFA over atoms; textbook constructions (product, subset) + Moore
//! * `Engine`   — memoised bottom-up construction Ref -> minimal Dfa, under a state budget (oracle B)
//! * `DpMatcher`— direct dynamic-programming membership test on a word (oracle A)

use std::collections::{HashMap, HashSet, VecDeque};
use std::rc::Rc;

pub const MAXC: u32 = 0x2FFFF;

#[derive(Debug)]
pub enum Ref {
    None,
    Eps,
    /// single characters in [a, b], a <= b
    Range(u32, u32),
    /// concatenation of the operands in order (empty list = epsilon)
    Cat(Vec<Rc<Ref>>),
    /// union (empty list = empty language)
    Or(Vec<Rc<Ref>>),
    /// intersection (empty list = all strings)
    And(Vec<Rc<Ref>>),
    Not(Rc<Ref>),
    /// union of r^k for lo <= k <= hi (hi = None: unbounded); lo > hi denotes the empty language
    Loop(Rc<Ref>, u32, Option<u32>),
}

pub type R = Rc<Ref>;

pub fn r_none() -> R {
    Rc::new(Ref::None)
}
pub fn r_eps() -> R {
    Rc::new(Ref::Eps)
}
pub fn r_range(a: u32, b: u32) -> R {
    if a <= b {
        Rc::new(Ref::Range(a, b))
    } else {
        r_none()
    }
}
pub fn r_allchar() -> R {
    r_range(0, MAXC)
}
pub fn r_all() -> R {
    Rc::new(Ref::Loop(r_allchar(), 0, None))
}
pub fn r_str(w: &[u32]) -> R {
    Rc::new(Ref::Cat(w.iter().map(|&c| r_range(c, c)).collect()))
}
pub fn r_cat(v: Vec<R>) -> R {
    Rc::new(Ref::Cat(v))
}
pub fn r_or(v: Vec<R>) -> R {
    Rc::new(Ref::Or(v))
}
pub fn r_and(v: Vec<R>) -> R {
    Rc::new(Ref::And(v))
}
pub fn r_not(x: R) -> R {
    Rc::new(Ref::Not(x))
}
pub fn r_loop(x: R, lo: u32, hi: Option<u32>) -> R {
    Rc::new(Ref::Loop(x, lo, hi))
}

impl Ref {
    /// epsilon membership by the mathematical definition (structural)
    pub fn has_eps(&self) -> bool {
        match self {
            Ref::None => false,
            Ref::Eps => true,
            Ref::Range(..) => false,
            Ref::Cat(v) => v.iter().all(|x| x.has_eps()),
            Ref::Or(v) => v.iter().any(|x| x.has_eps()),
            Ref::And(v) => v.iter().all(|x| x.has_eps()),
            Ref::Not(x) => !x.has_eps(),
            Ref::Loop(x, lo, hi) => match hi {
                Some(h) if h < lo => false,
                _ => *lo == 0 || x.has_eps(),
            },
        }
    }

    pub fn collect_points(&self, out: &mut Vec<u32>, seen: &mut HashSet<*const Ref>) {
        if !seen.insert(self as *const Ref) {
            return;
        }
        match self {
            Ref::None | Ref::Eps => {}
            Ref::Range(a, b) => {
                out.push(*a);
                out.push(*b);
            }
            Ref::Cat(v) | Ref::Or(v) | Ref::And(v) => {
                for x in v {
                    x.collect_points(out, seen)
                }
            }
            Ref::Not(x) | Ref::Loop(x, _, _) => x.collect_points(out, seen),
        }
    }

    pub fn show(&self) -> String {
        fn ch(c: u32) -> String {
            if (0x21..0x7f).contains(&c) && c != b'\\' as u32 {
                format!("{}", char::from_u32(c).unwrap())
            } else {
                format!("#{:x}", c)
            }
        }
        fn list(v: &[R], sep: &str, empty: &str) -> String {
            if v.is_empty() {
                return empty.to_string();
            }
            let parts: Vec<String> = v.iter().map(|x| x.show()).collect();
            format!("({})", parts.join(sep))
        }
        match self {
            Ref::None => "none".into(),
            Ref::Eps => "eps".into(),
            Ref::Range(a, b) => {
                if a == b {
                    ch(*a)
                } else if *a == 0 && *b == MAXC {
                    "Σ".into()
                } else {
                    format!("[{}-{}]", ch(*a), ch(*b))
                }
            }
            Ref::Cat(v) => list(v, " . ", "eps"),
            Ref::Or(v) => list(v, " | ", "none"),
            Ref::And(v) => list(v, " & ", "all"),
            Ref::Not(x) => format!("~{}", x.show()),
            Ref::Loop(x, lo, hi) => match hi {
                Some(h) => format!("{}{{{},{}}}", x.show(), lo, h),
                None => format!("{}{{{},inf}}", x.show(), lo),
            },
        }
    }

    /// alphabetic width with loops unrolled (number of character positions of the expanded expression);
    /// saturates at 1 << 20
    pub fn expanded_width(&self) -> u64 {
        let cap = 1u64 << 20;
        let w = match self {
            Ref::None | Ref::Eps => 0,
            Ref::Range(..) => 1,
            Ref::Cat(v) | Ref::Or(v) | Ref::And(v) => v.iter().map(|x| x.expanded_width()).sum(),
            Ref::Not(x) => x.expanded_width(),
            Ref::Loop(x, lo, hi) => {
                let k = match hi {
                    Some(h) => *h as u64,
                    None => *lo as u64 + 1,
                };
                k.saturating_mul(x.expanded_width())
            }
        };
        w.min(cap)
    }

    pub fn size(&self) -> usize {
        match self {
            Ref::None | Ref::Eps | Ref::Range(..) => 1,
            Ref::Cat(v) | Ref::Or(v) | Ref::And(v) => 1 + v.iter().map(|x| x.size()).sum::<usize>(),
            Ref::Not(x) | Ref::Loop(x, _, _) => 1 + x.size(),
        }
    }
}

// ------------------------------------------------------------------ atoms

/// Elementary intervals: atom k = [lo[k], hi(k)], a partition of [0, MAXC]
#[derive(Clone, Debug, PartialEq, Eq)]
pub struct Atoms {
    pub lo: Vec<u32>,
}

impl Atoms {
    /// atoms such that every p in `points` starts an atom and ends an atom
    /// (so [a,b] with a, b in points is a union of atoms)
    pub fn from_points(points: &[u32]) -> Atoms {
        let mut v = vec![0u32];
        for &p in points {
            if p <= MAXC {
                v.push(p);
                if p < MAXC {
                    v.push(p + 1);
                }
            }
        }
        v.sort_unstable();
        v.dedup();
        Atoms { lo: v }
    }
    pub fn n(&self) -> usize {
        self.lo.len()
    }
    pub fn hi(&self, k: usize) -> u32 {
        if k + 1 < self.lo.len() {
            self.lo[k + 1] - 1
        } else {
            MAXC
        }
    }
    pub fn mid(&self, k: usize) -> u32 {
        let (a, b) = (self.lo[k], self.hi(k));
        a + (b - a) / 2
    }
    pub fn of(&self, c: u32) -> usize {
        match self.lo.binary_search(&c) {
            Ok(i) => i,
            Err(i) => i - 1,
        }
    }
    /// is [a,b] a union of atoms?
    pub fn aligned(&self, a: u32, b: u32) -> bool {
        self.lo.binary_search(&a).is_ok() && (b == MAXC || self.lo.binary_search(&(b + 1)).is_ok())
    }
    /// probe characters of atom k: both end points and the middle
    pub fn probes(&self, k: usize) -> [u32; 3] {
        [self.lo[k], self.mid(k), self.hi(k)]
    }
    pub fn word(&self, w: &[usize]) -> Vec<u32> {
        w.iter().map(|&k| self.lo[k]).collect()
    }
    pub fn word_of(&self, w: &[u32]) -> Vec<usize> {
        w.iter().map(|&c| self.of(c)).collect()
    }
}

/// Some(d) if every word of L(r) has length d and L(r) is not empty (a sufficient syntactic test)
pub fn uniform_len(r: &Ref) -> Option<u64> {
    match r {
        Ref::Eps => Some(0),
        Ref::Range(..) => Some(1),
        Ref::Cat(v) => {
            let mut n = 0u64;
            for x in v {
                n += uniform_len(x)?;
            }
            Some(n)
        }
        Ref::Or(v) if !v.is_empty() => {
            let d = uniform_len(&v[0])?;
            for x in &v[1..] {
                if uniform_len(x)? != d {
                    return None;
                }
            }
            Some(d)
        }
        Ref::Loop(x, lo, Some(hi)) if lo == hi => Some(uniform_len(x)? * *lo as u64),
        _ => None,
    }
}

fn same_shape(a: &Ref, b: &Ref) -> bool {
    match (a, b) {
        (Ref::None, Ref::None) | (Ref::Eps, Ref::Eps) => true,
        (Ref::Range(a1, b1), Ref::Range(a2, b2)) => a1 == a2 && b1 == b2,
        (Ref::Cat(x), Ref::Cat(y)) | (Ref::Or(x), Ref::Or(y)) | (Ref::And(x), Ref::And(y)) => x.len() == y.len() && x.iter().zip(y.iter()).all(|(p, q)| same_shape(p, q)),
        (Ref::Not(x), Ref::Not(y)) => same_shape(x, y),
        (Ref::Loop(x, l1, h1), Ref::Loop(y, l2, h2)) => l1 == l2 && h1 == h2 && same_shape(x, y),
        _ => false,
    }
}

/// A cheap sufficient argument that two expressions denote different languages, for the cases where the reference
/// automata are out of reach: two loops over the same body, all of whose words have the same non-zero length, denote
/// the same language only if their ranges contain the same repetition counts. Some(witness description) if different.
pub fn provably_different(a: &Ref, b: &Ref) -> Option<String> {
    if let (Ref::Loop(x, l1, h1), Ref::Loop(y, l2, h2)) = (a, b) {
        if same_shape(x, y) && uniform_len(x).map_or(false, |d| d > 0) {
            let set = |l: u32, h: Option<u32>| -> Option<(u32, Option<u32>)> {
                match h {
                    Some(h) if h < l => None,
                    _ => Some((l, h)),
                }
            };
            let (s1, s2) = (set(*l1, *h1), set(*l2, *h2));
            if s1 != s2 {
                return Some(format!("loops over the same fixed-length body with repetition counts {:?} and {:?}", s1, s2));
            }
        }
    }
    None
}

/// Some(ranges) if r denotes a rigid word: a single range, epsilon, or a concatenation of ranges
pub fn rigid_word(r: &Ref) -> Option<Vec<(u32, u32)>> {
    match r {
        Ref::Eps => Some(vec![]),
        Ref::Range(a, b) => Some(vec![(*a, *b)]),
        Ref::Cat(v) => {
            let mut out = Vec::with_capacity(v.len());
            for x in v {
                match &**x {
                    Ref::Range(a, b) => out.push((*a, *b)),
                    _ => return None,
                }
            }
            Some(out)
        }
        _ => None,
    }
}

// ------------------------------------------------------------------ DFA

#[derive(Debug)]
pub struct OverBudget;
pub type Res<T> = Result<T, OverBudget>;

/// Budget of one reference construction: a bound on the states of any intermediate automaton and a bound on
/// the total work (state x atom cells produced). Both are deterministic; exceeding either only skips the case.
pub struct Bud {
    pub states: usize,
    pub max_work: u64,
    pub work: std::cell::Cell<u64>,
}

impl Bud {
    pub fn new(states: usize, max_work: u64) -> Bud {
        Bud { states, max_work, work: std::cell::Cell::new(0) }
    }
    fn spend(&self, n: usize) -> Res<()> {
        let w = self.work.get() + n as u64;
        self.work.set(w);
        if w > self.max_work {
            Err(OverBudget)
        } else {
            Ok(())
        }
    }
}

/// Complete DFA over `a` atoms. State 0.. ; `start` is the initial state.
#[derive(Clone, Debug)]
pub struct Dfa {
    pub a: usize,
    pub t: Vec<u32>,
    pub f: Vec<bool>,
    pub start: u32,
}

impl Dfa {
    pub fn n(&self) -> usize {
        self.f.len()
    }
    pub fn step(&self, s: u32, k: usize) -> u32 {
        self.t[s as usize * self.a + k]
    }
    pub fn run(&self, from: u32, w: &[usize]) -> u32 {
        w.iter().fold(from, |s, &k| self.step(s, k))
    }
    pub fn accepts(&self, w: &[usize]) -> bool {
        self.f[self.run(self.start, w) as usize]
    }
    pub fn accepts_from(&self, s: u32, w: &[usize]) -> bool {
        self.f[self.run(s, w) as usize]
    }

    pub fn none(a: usize) -> Dfa {
        Dfa { a, t: vec![0; a], f: vec![false], start: 0 }
    }
    pub fn all(a: usize) -> Dfa {
        Dfa { a, t: vec![0; a], f: vec![true], start: 0 }
    }
    pub fn eps(a: usize) -> Dfa {
        Dfa { a, t: vec![1; 2 * a], f: vec![true, false], start: 0 }
    }
    /// one-character words whose atom is in `set`
    pub fn sym(a: usize, set: &[bool]) -> Dfa {
        let mut t = vec![2u32; 3 * a];
        for k in 0..a {
            if set[k] {
                t[k] = 1;
            }
        }
        Dfa { a, t, f: vec![false, true, false], start: 0 }
    }
    pub fn not(&self) -> Dfa {
        Dfa { a: self.a, t: self.t.clone(), f: self.f.iter().map(|b| !b).collect(), start: self.start }
    }

    /// union of rigid words (sequences of ranges aligned with the atoms): subset construction over (word, position) items
    pub fn from_rigid_words(words: &[Vec<(u32, u32)>], atoms: &Atoms, bud: &Bud) -> Res<Dfa> {
        let a = atoms.n();
        let mut start: Vec<(u32, u32)> = (0..words.len() as u32).map(|k| (k, 0)).collect();
        start.sort_unstable();
        let mut idx: HashMap<Vec<(u32, u32)>, u32> = HashMap::new();
        let mut q: Vec<Vec<(u32, u32)>> = vec![start.clone()];
        idx.insert(start, 0);
        let mut t = Vec::new();
        let mut f = Vec::new();
        let mut i = 0;
        while i < q.len() {
            let items = q[i].clone();
            i += 1;
            f.push(items.iter().any(|&(k, p)| p as usize == words[k as usize].len()));
            // successor item sets per atom: one pass over the items, each range spreads over a run of atoms
            let mut succ: Vec<Vec<(u32, u32)>> = vec![Vec::new(); a];
            for &(k, p) in &items {
                if let Some(&(x, y)) = words[k as usize].get(p as usize) {
                    let (k0, k1) = (atoms.of(x), atoms.of(y));
                    bud.spend(k1 - k0 + 1)?;
                    for at in k0..=k1 {
                        succ[at].push((k, p + 1));
                    }
                }
            }
            for set in succ {
                let l = q.len() as u32;
                let id = match idx.get(&set) {
                    Some(&id) => id,
                    None => {
                        idx.insert(set.clone(), l);
                        q.push(set);
                        l
                    }
                };
                t.push(id);
            }
            if q.len() > bud.states {
                return Err(OverBudget);
            }
            bud.spend(a / 8 + 1)?;
        }
        Ok(Dfa { a, t, f, start: 0 }.minimize())
    }

    /// product automaton for union (and=false) or intersection (and=true)
    pub fn prod(&self, o: &Dfa, and: bool, bud: &Bud) -> Res<Dfa> {
        let budget = bud.states;
        let a = self.a;
        assert_eq!(a, o.a);
        let mut idx: HashMap<(u32, u32), u32> = HashMap::new();
        let mut q = vec![(self.start, o.start)];
        idx.insert(q[0], 0);
        let mut t = Vec::new();
        let mut f = Vec::new();
        let mut i = 0;
        while i < q.len() {
            let (x, y) = q[i];
            i += 1;
            let (fx, fy) = (self.f[x as usize], o.f[y as usize]);
            f.push(if and { fx && fy } else { fx || fy });
            for k in 0..a {
                let p = (self.step(x, k), o.step(y, k));
                let l = q.len() as u32;
                let id = *idx.entry(p).or_insert_with(|| {
                    q.push(p);
                    l
                });
                t.push(id);
            }
            if q.len() > budget {
                return Err(OverBudget);
            }
            bud.spend(a + 1)?;
        }
        Ok(Dfa { a, t, f, start: 0 }.minimize())
    }

    /// concatenation L(self).L(o): states are (state of self, set of states of o)
    pub fn cat(&self, o: &Dfa, bud: &Bud) -> Res<Dfa> {
        let budget = bud.states;
        let a = self.a;
        assert_eq!(a, o.a);
        type K = (u32, Vec<u32>);
        let close = |x: u32, mut s: Vec<u32>| -> K {
            if self.f[x as usize] && !s.contains(&o.start) {
                s.push(o.start);
            }
            s.sort_unstable();
            s.dedup();
            (x, s)
        };
        let mut idx: HashMap<K, u32> = HashMap::new();
        let k0 = close(self.start, vec![]);
        let mut q = vec![k0.clone()];
        idx.insert(k0, 0);
        let mut t = Vec::new();
        let mut f = Vec::new();
        let mut i = 0;
        while i < q.len() {
            let (x, s) = q[i].clone();
            i += 1;
            f.push(s.iter().any(|&y| o.f[y as usize]));
            for k in 0..a {
                let nx = self.step(x, k);
                let ns: Vec<u32> = s.iter().map(|&y| o.step(y, k)).collect();
                bud.spend(ns.len())?;
                let key = close(nx, ns);
                let l = q.len() as u32;
                let id = match idx.get(&key) {
                    Some(&id) => id,
                    None => {
                        idx.insert(key.clone(), l);
                        q.push(key);
                        l
                    }
                };
                t.push(id);
            }
            if q.len() > budget {
                return Err(OverBudget);
            }
            bud.spend(a + 1)?;
        }
        Ok(Dfa { a, t, f, start: 0 }.minimize())
    }

    /// Kleene plus by subset construction (re-enter the start state whenever a final state is in the set)
    pub fn plus(&self, bud: &Bud) -> Res<Dfa> {
        let budget = bud.states;
        let a = self.a;
        let clo = |mut s: Vec<u32>| {
            if s.iter().any(|&y| self.f[y as usize]) && !s.contains(&self.start) {
                s.push(self.start);
            }
            s.sort_unstable();
            s.dedup();
            s
        };
        let mut idx: HashMap<Vec<u32>, u32> = HashMap::new();
        let k0 = clo(vec![self.start]);
        let mut q = vec![k0.clone()];
        idx.insert(k0, 0);
        let mut t = Vec::new();
        let mut f = Vec::new();
        let mut i = 0;
        while i < q.len() {
            let s = q[i].clone();
            i += 1;
            f.push(s.iter().any(|&y| self.f[y as usize]));
            for k in 0..a {
                bud.spend(s.len())?;
                let key = clo(s.iter().map(|&y| self.step(y, k)).collect());
                let l = q.len() as u32;
                let id = match idx.get(&key) {
                    Some(&id) => id,
                    None => {
                        idx.insert(key.clone(), l);
                        q.push(key);
                        l
                    }
                };
                t.push(id);
            }
            if q.len() > budget {
                return Err(OverBudget);
            }
            bud.spend(a + 1)?;
        }
        Ok(Dfa { a, t, f, start: 0 }.minimize())
    }

    /// Moore partition refinement over ALL states; returns class of each state and the number of classes
    pub fn moore_classes(&self) -> (Vec<u32>, usize) {
        let n = self.n();
        let a = self.a;
        let mut cls: Vec<u32> = self.f.iter().map(|&b| b as u32).collect();
        let mut count = {
            let mut s: Vec<u32> = cls.clone();
            s.sort_unstable();
            s.dedup();
            s.len()
        };
        loop {
            let mut sig: HashMap<Vec<u32>, u32> = HashMap::new();
            let mut new = vec![0u32; n];
            for s in 0..n {
                let mut key = Vec::with_capacity(a + 1);
                key.push(cls[s]);
                for k in 0..a {
                    key.push(cls[self.t[s * a + k] as usize]);
                }
                let l = sig.len() as u32;
                new[s] = *sig.entry(key).or_insert(l);
            }
            let m = sig.len();
            cls = new;
            if m == count {
                return (cls, m);
            }
            count = m;
        }
    }

    /// Hopcroft partition refinement over ALL states (same result as moore_classes, O(a n log n))
    pub fn hopcroft_classes(&self) -> (Vec<u32>, usize) {
        let n = self.n();
        let a = self.a;
        // inverse transitions: for each symbol, predecessors lists in CSR form
        let mut inv_start = vec![0u32; a * (n + 1)];
        for s in 0..n {
            for k in 0..a {
                inv_start[k * (n + 1) + self.t[s * a + k] as usize + 1] += 1;
            }
        }
        for k in 0..a {
            for q in 0..n {
                inv_start[k * (n + 1) + q + 1] += inv_start[k * (n + 1) + q];
            }
        }
        let mut fill = inv_start.clone();
        let mut inv = vec![0u32; a * n];
        for s in 0..n {
            for k in 0..a {
                let q = self.t[s * a + k] as usize;
                let pos = fill[k * (n + 1) + q] as usize;
                inv[k * n + pos] = s as u32;
                fill[k * (n + 1) + q] += 1;
            }
        }
        // blocks as ranges of a permutation array
        let mut elems: Vec<u32> = (0..n as u32).collect();
        let mut loc = vec![0u32; n]; // position of state in elems
        let mut blk = vec![0u32; n]; // block of state
        let mut bstart: Vec<u32> = Vec::new();
        let mut bend: Vec<u32> = Vec::new();
        // initial split by finality
        elems.sort_by_key(|&s| self.f[s as usize]);
        for (i, &s) in elems.iter().enumerate() {
            loc[s as usize] = i as u32;
        }
        let nf = self.f.iter().filter(|&&b| !b).count();
        if nf > 0 {
            bstart.push(0);
            bend.push(nf as u32);
        }
        if nf < n {
            bstart.push(nf as u32);
            bend.push(n as u32);
        }
        for b in 0..bstart.len() {
            for i in bstart[b]..bend[b] {
                blk[elems[i as usize] as usize] = b as u32;
            }
        }
        let mut in_work = vec![false; bstart.len()];
        let mut work: Vec<u32> = Vec::new();
        // all initial blocks go on the work list (simple and safe)
        for b in 0..bstart.len() {
            work.push(b as u32);
            in_work[b] = true;
        }
        let mut marked_count: Vec<u32> = vec![0; bstart.len()];
        let mut touched: Vec<u32> = Vec::new();
        while let Some(bw) = work.pop() {
            in_work[bw as usize] = false;
            // snapshot of the splitter block's members
            let members: Vec<u32> = elems[bstart[bw as usize] as usize..bend[bw as usize] as usize].to_vec();
            for k in 0..a {
                touched.clear();
                // mark predecessors: move them to the front of their block
                for &q in &members {
                    let lo = inv_start[k * (n + 1) + q as usize] as usize;
                    let hi = inv_start[k * (n + 1) + q as usize + 1] as usize;
                    for idx in lo..hi {
                        let p = inv[k * n + idx];
                        let b = blk[p as usize] as usize;
                        let mpos = bstart[b] + marked_count[b];
                        let ppos = loc[p as usize];
                        if ppos >= mpos {
                            // swap p with the first unmarked element
                            let other = elems[mpos as usize];
                            elems.swap(mpos as usize, ppos as usize);
                            loc[p as usize] = mpos;
                            loc[other as usize] = ppos;
                            if marked_count[b] == 0 {
                                touched.push(b as u32);
                            }
                            marked_count[b] += 1;
                        }
                    }
                }
                // split touched blocks
                for &b in &touched {
                    let b = b as usize;
                    let mc = marked_count[b];
                    marked_count[b] = 0;
                    let size = bend[b] - bstart[b];
                    if mc == size {
                        continue;
                    }
                    // new block = the smaller part
                    let nb = bstart.len();
                    let (ns, ne) = if mc <= size - mc {
                        // marked part [bstart, bstart+mc) becomes the new block
                        let r = (bstart[b], bstart[b] + mc);
                        bstart[b] += mc;
                        r
                    } else {
                        let r = (bstart[b] + mc, bend[b]);
                        bend[b] = bstart[b] + mc;
                        r
                    };
                    bstart.push(ns);
                    bend.push(ne);
                    marked_count.push(0);
                    in_work.push(false);
                    for i in ns..ne {
                        blk[elems[i as usize] as usize] = nb as u32;
                    }
                    // the new block is the smaller half: always sufficient to add it; if the old block is
                    // pending it stays pending
                    work.push(nb as u32);
                    in_work[nb] = true;
                }
            }
        }
        (blk, bstart.len())
    }

    /// number of Moore refinement rounds needed (a measure of how deep distinguishing words are)
    pub fn moore_depth(&self) -> usize {
        let n = self.n();
        let a = self.a;
        let mut cls: Vec<u32> = self.f.iter().map(|&b| b as u32).collect();
        let mut count = {
            let mut s = cls.clone();
            s.sort_unstable();
            s.dedup();
            s.len()
        };
        let mut rounds = 0;
        loop {
            let mut sig: HashMap<Vec<u32>, u32> = HashMap::new();
            let mut new = vec![0u32; n];
            for s in 0..n {
                let mut key = Vec::with_capacity(a + 1);
                key.push(cls[s]);
                for k in 0..a {
                    key.push(cls[self.t[s * a + k] as usize]);
                }
                let l = sig.len() as u32;
                new[s] = *sig.entry(key).or_insert(l);
            }
            let m = sig.len();
            cls = new;
            if m == count {
                return rounds;
            }
            rounds += 1;
            count = m;
        }
    }

    pub fn reachable(&self) -> Vec<bool> {
        let mut seen = vec![false; self.n()];
        let mut st = vec![self.start];
        seen[self.start as usize] = true;
        while let Some(x) = st.pop() {
            for k in 0..self.a {
                let y = self.step(x, k);
                if !seen[y as usize] {
                    seen[y as usize] = true;
                    st.push(y);
                }
            }
        }
        seen
    }

    /// minimal complete DFA of the language from `start`; states numbered in BFS order, start = 0
    pub fn minimize(&self) -> Dfa {
        let a = self.a;
        let (cls, m) = self.hopcroft_classes();
        let mut rep = vec![usize::MAX; m];
        for s in 0..self.n() {
            if rep[cls[s] as usize] == usize::MAX {
                rep[cls[s] as usize] = s;
            }
        }
        let mut order = vec![u32::MAX; m];
        let c0 = cls[self.start as usize];
        let mut q = vec![c0];
        order[c0 as usize] = 0;
        let mut i = 0;
        let mut t = Vec::new();
        let mut f = Vec::new();
        while i < q.len() {
            let c = q[i] as usize;
            i += 1;
            let s = rep[c];
            f.push(self.f[s]);
            for k in 0..a {
                let d = cls[self.t[s * a + k] as usize];
                if order[d as usize] == u32::MAX {
                    order[d as usize] = q.len() as u32;
                    q.push(d);
                }
                t.push(order[d as usize]);
            }
        }
        Dfa { a, t, f, start: 0 }
    }

    /// Some(word) distinguishing (self from s1) and (o from s2), None if equivalent. Shortest by BFS.
    pub fn diff_from(&self, s1: u32, o: &Dfa, s2: u32) -> Option<Vec<usize>> {
        assert_eq!(self.a, o.a);
        let mut seen: HashMap<(u32, u32), Option<((u32, u32), usize)>> = HashMap::new();
        let mut q = VecDeque::new();
        seen.insert((s1, s2), None);
        q.push_back((s1, s2));
        while let Some((x, y)) = q.pop_front() {
            if self.f[x as usize] != o.f[y as usize] {
                return Some(path(&seen, (x, y)));
            }
            for k in 0..self.a {
                let p = (self.step(x, k), o.step(y, k));
                if !seen.contains_key(&p) {
                    seen.insert(p, Some(((x, y), k)));
                    q.push_back(p);
                }
            }
        }
        None
    }
    pub fn diff(&self, o: &Dfa) -> Option<Vec<usize>> {
        self.diff_from(self.start, o, o.start)
    }

    /// Some(word in L(self from s1) \ L(o from s2)), None if included
    pub fn not_included_from(&self, s1: u32, o: &Dfa, s2: u32) -> Option<Vec<usize>> {
        assert_eq!(self.a, o.a);
        let mut seen: HashMap<(u32, u32), Option<((u32, u32), usize)>> = HashMap::new();
        let mut q = VecDeque::new();
        seen.insert((s1, s2), None);
        q.push_back((s1, s2));
        while let Some((x, y)) = q.pop_front() {
            if self.f[x as usize] && !o.f[y as usize] {
                return Some(path(&seen, (x, y)));
            }
            for k in 0..self.a {
                let p = (self.step(x, k), o.step(y, k));
                if !seen.contains_key(&p) {
                    seen.insert(p, Some(((x, y), k)));
                    q.push_back(p);
                }
            }
        }
        None
    }

    /// shortest accepted word from state s, if any
    pub fn witness_from(&self, s: u32) -> Option<Vec<usize>> {
        let mut seen: HashMap<u32, Option<(u32, usize)>> = HashMap::new();
        let mut q = VecDeque::new();
        seen.insert(s, None);
        q.push_back(s);
        while let Some(x) = q.pop_front() {
            if self.f[x as usize] {
                let mut w = Vec::new();
                let mut cur = x;
                while let Some(Some((p, k))) = seen.get(&cur) {
                    w.push(*k);
                    cur = *p;
                }
                w.reverse();
                return Some(w);
            }
            for k in 0..self.a {
                let y = self.step(x, k);
                if !seen.contains_key(&y) {
                    seen.insert(y, Some((x, k)));
                    q.push_back(y);
                }
            }
        }
        None
    }
    pub fn is_empty_from(&self, s: u32) -> bool {
        self.witness_from(s).is_none()
    }
    pub fn is_empty(&self) -> bool {
        self.is_empty_from(self.start)
    }

    /// shortest access word for every reachable state (None if unreachable)
    pub fn access_words(&self) -> Vec<Option<Vec<usize>>> {
        let mut res: Vec<Option<Vec<usize>>> = vec![None; self.n()];
        let mut q = VecDeque::new();
        res[self.start as usize] = Some(vec![]);
        q.push_back(self.start);
        while let Some(x) = q.pop_front() {
            let w = res[x as usize].clone().unwrap();
            for k in 0..self.a {
                let y = self.step(x, k);
                if res[y as usize].is_none() {
                    let mut w2 = w.clone();
                    w2.push(k);
                    res[y as usize] = Some(w2);
                    q.push_back(y);
                }
            }
        }
        res
    }

    /// re-express this DFA over a finer atom set (every new atom lies inside one old atom)
    pub fn refine_atoms(&self, old: &Atoms, new: &Atoms) -> Dfa {
        let a = new.n();
        let map: Vec<usize> = (0..a).map(|k| old.of(new.lo[k])).collect();
        let mut t = Vec::with_capacity(self.n() * a);
        for s in 0..self.n() {
            for k in 0..a {
                t.push(self.t[s * self.a + map[k]]);
            }
        }
        Dfa { a, t, f: self.f.clone(), start: self.start }
    }
}

fn path(seen: &HashMap<(u32, u32), Option<((u32, u32), usize)>>, end: (u32, u32)) -> Vec<usize> {
    let mut w = Vec::new();
    let mut cur = end;
    while let Some(Some((p, k))) = seen.get(&cur) {
        w.push(*k);
        cur = *p;
    }
    w.reverse();
    w
}

// ------------------------------------------------------------------ Engine (oracle B)

pub struct Engine {
    pub atoms: Atoms,
    pub budget: usize,
    bud: Rc<Bud>,
    depth: usize,
    memo: HashMap<*const Ref, Rc<Dfa>>,
    /// nodes whose own construction used a large share of the work budget and still failed: not retried
    hard: HashSet<*const Ref>,
    // keep the Rcs alive so that pointers stay unique
    keep: Vec<R>,
    pub built: u64,
    pub over_budget: u64,
    pub max_states: usize,
}

impl Engine {
    pub fn new(atoms: Atoms, budget: usize) -> Engine {
        // work budget per top-level construction: proportional to the state budget
        let bud = Rc::new(Bud::new(budget, budget as u64 * 400));
        Engine { atoms, budget, bud, depth: 0, memo: HashMap::new(), hard: HashSet::new(), keep: Vec::new(), built: 0, over_budget: 0, max_states: 0 }
    }

    /// make sure all `points` are atom boundaries; if not, refine atoms and drop the memo
    pub fn ensure_points(&mut self, points: &[u32]) -> bool {
        let mut need = false;
        for &p in points {
            if p > MAXC {
                continue;
            }
            if self.atoms.lo.binary_search(&p).is_err() || (p < MAXC && self.atoms.lo.binary_search(&(p + 1)).is_err()) {
                need = true;
            }
        }
        if need {
            let mut cuts: Vec<u32> = self.atoms.lo.clone();
            for &p in points {
                if p <= MAXC {
                    cuts.push(p);
                    if p < MAXC {
                        cuts.push(p + 1);
                    }
                }
            }
            cuts.sort_unstable();
            cuts.dedup();
            self.atoms = Atoms { lo: cuts };
            self.memo.clear();
            self.hard.clear();
            self.keep.clear();
        }
        need
    }

    pub fn ensure_ref(&mut self, r: &R) -> bool {
        let mut pts = Vec::new();
        r.collect_points(&mut pts, &mut HashSet::new());
        self.ensure_points(&pts)
    }

    /// minimal DFA of r over the current atoms (r's ranges must be aligned: call ensure_ref first)
    pub fn dfa(&mut self, r: &R) -> Res<Rc<Dfa>> {
        if self.depth == 0 {
            self.bud.work.set(0);
        }
        self.depth += 1;
        let res = self.dfa_rec(r);
        self.depth -= 1;
        if res.is_err() && self.depth == 0 {
            self.over_budget += 1;
        }
        res
    }

    fn dfa_rec(&mut self, r: &R) -> Res<Rc<Dfa>> {
        if let Some(d) = self.memo.get(&Rc::as_ptr(r)) {
            return Ok(d.clone());
        }
        if self.hard.contains(&Rc::as_ptr(r)) {
            return Err(OverBudget);
        }
        let w0 = self.bud.work.get();
        let res = self.dfa_node(r);
        if res.is_err() && self.bud.work.get() - w0 >= self.bud.max_work / 4 {
            self.hard.insert(Rc::as_ptr(r));
            self.keep.push(r.clone());
        }
        res
    }

    fn dfa_node(&mut self, r: &R) -> Res<Rc<Dfa>> {
        let a = self.atoms.n();
        let bud = self.bud.clone();
        let b: &Bud = &bud;
        let d: Dfa = match &**r {
            Ref::None => Dfa::none(a),
            Ref::Eps => Dfa::eps(a),
            Ref::Range(x, y) => {
                assert!(self.atoms.aligned(*x, *y), "range [{:x},{:x}] not aligned with atoms", x, y);
                let set: Vec<bool> = (0..a).map(|k| *x <= self.atoms.lo[k] && self.atoms.hi(k) <= *y).collect();
                Dfa::sym(a, &set).minimize()
            }
            Ref::Cat(v) => {
                let mut acc = Dfa::eps(a);
                for x in v {
                    let dx = self.dfa_rec(x)?;
                    acc = acc.cat(&dx, b)?;
                }
                acc
            }
            Ref::Or(v) if v.len() >= 8 && v.iter().all(|x| rigid_word(x).is_some()) => {
                // union of many rigid words (each a sequence of character ranges): position automaton built directly,
                // instead of v.len() successive products
                let words: Vec<Vec<(u32, u32)>> = v.iter().map(|x| rigid_word(x).unwrap()).collect();
                for w in &words {
                    for &(x, y) in w {
                        assert!(self.atoms.aligned(x, y), "range [{:x},{:x}] not aligned with atoms", x, y);
                    }
                }
                Dfa::from_rigid_words(&words, &self.atoms, b)?
            }
            Ref::Or(v) => {
                let mut acc = Dfa::none(a);
                for x in v {
                    let dx = self.dfa_rec(x)?;
                    acc = acc.prod(&dx, false, b)?;
                }
                acc
            }
            Ref::And(v) => {
                let mut acc = Dfa::all(a);
                for x in v {
                    let dx = self.dfa_rec(x)?;
                    acc = acc.prod(&dx, true, b)?;
                }
                acc
            }
            Ref::Not(x) => self.dfa_rec(x)?.not(),
            Ref::Loop(x, lo, hi) => {
                let dx = self.dfa_rec(x)?;
                match hi {
                    Some(h) if h < lo => Dfa::none(a),
                    _ => {
                        // r^lo . (r?)^(hi-lo)   or   r^lo . r*
                        if (*lo as usize) > b.states || hi.map_or(false, |h| (h - lo) as usize > b.states) {
                            return Err(OverBudget);
                        }
                        let mut acc = Dfa::eps(a);
                        for _ in 0..*lo {
                            acc = acc.cat(&dx, b)?;
                        }
                        match hi {
                            None => {
                                let plus = dx.plus(b)?;
                                let star = Dfa::eps(a).prod(&plus, false, b)?;
                                acc.cat(&star, b)?
                            }
                            Some(h) => {
                                let opt = Dfa::eps(a).prod(&dx, false, b)?;
                                // (r?)^m built right to left keeps intermediate automata small
                                let mut tail = Dfa::eps(a);
                                for _ in *lo..*h {
                                    tail = opt.cat(&tail, b)?;
                                }
                                acc.cat(&tail, b)?
                            }
                        }
                    }
                }
            }
        };
        self.built += 1;
        if d.n() > self.max_states {
            self.max_states = d.n();
        }
        let d = Rc::new(d);
        self.memo.insert(Rc::as_ptr(r), d.clone());
        self.keep.push(r.clone());
        Ok(d)
    }
}

// ------------------------------------------------------------------ DP matcher (oracle A)

pub struct DpMatcher<'a> {
    w: &'a [u32],
    memo: HashMap<(*const Ref, usize, usize), bool>,
}

impl<'a> DpMatcher<'a> {
    pub fn new(w: &'a [u32]) -> DpMatcher<'a> {
        DpMatcher { w, memo: HashMap::new() }
    }

    pub fn full(&mut self, r: &Ref) -> bool {
        self.m(r, 0, self.w.len())
    }

    /// w[i..j] in L(r)
    pub fn m(&mut self, r: &Ref, i: usize, j: usize) -> bool {
        let key = (r as *const Ref, i, j);
        if let Some(&b) = self.memo.get(&key) {
            return b;
        }
        let res = match r {
            Ref::None => false,
            Ref::Eps => i == j,
            Ref::Range(a, b) => j == i + 1 && *a <= self.w[i] && self.w[i] <= *b,
            Ref::Cat(v) => {
                let mut cur = vec![false; j + 1];
                cur[i] = true;
                for x in v {
                    let mut nxt = vec![false; j + 1];
                    let mut any = false;
                    for p in i..=j {
                        if cur[p] {
                            for q in p..=j {
                                if !nxt[q] && self.m(x, p, q) {
                                    nxt[q] = true;
                                    any = true;
                                }
                            }
                        }
                    }
                    cur = nxt;
                    if !any {
                        break;
                    }
                }
                cur[j]
            }
            Ref::Or(v) => v.iter().any(|x| self.m(x, i, j)),
            Ref::And(v) => v.iter().all(|x| self.m(x, i, j)),
            Ref::Not(x) => !self.m(x, i, j),
            Ref::Loop(x, lo, hi) => {
                if let Some(h) = hi {
                    if h < lo {
                        self.memo.insert(key, false);
                        return false;
                    }
                }
                // T_m = positions reachable from i with exactly m NON-EMPTY pieces of L(x)
                let eps_in = self.m(x, i, i);
                let n = j - i;
                let mut cur = vec![false; j + 1];
                cur[i] = true;
                let mut found = false;
                for m in 0..=n {
                    if cur[j] {
                        let m32 = m as u64;
                        let ok_hi = hi.map_or(true, |h| m32 <= h as u64);
                        let ok_lo = m32 >= *lo as u64 || eps_in;
                        // with eps in L(x), fewer pieces can be padded by empty ones up to lo, as long as lo <= hi (checked)
                        if ok_hi && ok_lo {
                            found = true;
                            break;
                        }
                    }
                    if m == n {
                        break;
                    }
                    let mut nxt = vec![false; j + 1];
                    for p in i..=j {
                        if cur[p] {
                            for q in (p + 1)..=j {
                                if !nxt[q] && self.m(x, p, q) {
                                    nxt[q] = true;
                                }
                            }
                        }
                    }
                    cur = nxt;
                }
                found
            }
        };
        self.memo.insert(key, res);
        res
    }
}

pub fn dp_matches(r: &Ref, w: &[u32]) -> bool {
    DpMatcher::new(w).full(r)
}
