//! SMT-LIB 2.6 text for ground string/regex terms, used only for the non-gating cvc5 cross-check of the
//! oracles' reading of the standard.

use super::re::{Ref, MAXC};

pub fn ch(c: u32) -> String {
    if (0x20..0x7f).contains(&c) && c != b'"' as u32 && c != b'\\' as u32 {
        char::from_u32(c).unwrap().to_string()
    } else if c == b'"' as u32 {
        "\"\"".to_string()
    } else {
        format!("\\u{{{:x}}}", c)
    }
}

pub fn lit(w: &[u32]) -> String {
    let mut o = String::from("\"");
    for &c in w {
        o.push_str(&ch(c));
    }
    o.push('"');
    o
}

pub fn int(i: i64) -> String {
    if i < 0 {
        format!("(- {})", -i)
    } else {
        format!("{}", i)
    }
}

/// cvc5 1.0 mis-evaluates intersections with a complemented character class, e.g. it answers false for
/// (str.in_re "d" (re.inter (re.comp (re.range "a" "b")) (re.range "a" "z"))) and for re.diff of two ranges
/// (z3 answers true, as the definition demands). Expressions that contain both a complement and an intersection
/// are therefore kept out of the cvc5 cross-check.
pub fn cvc5_safe(r: &Ref) -> bool {
    fn has(r: &Ref, not: &mut bool, and: &mut bool) {
        match r {
            Ref::None | Ref::Eps | Ref::Range(..) => {}
            Ref::Cat(v) | Ref::Or(v) => v.iter().for_each(|x| has(x, not, and)),
            Ref::And(v) => {
                *and = true;
                v.iter().for_each(|x| has(x, not, and))
            }
            Ref::Not(x) => {
                *not = true;
                has(x, not, and)
            }
            Ref::Loop(x, lo, hi) => {
                // cvc5 unrolls counting loops: bounds beyond a few dozen only ever end in its time limit
                if *lo > 40 || hi.map_or(false, |h| h > 40) {
                    *not = true;
                    *and = true;
                }
                has(x, not, and)
            }
        }
    }
    let (mut n, mut a) = (false, false);
    has(r, &mut n, &mut a);
    !(n && a)
}

pub fn re(r: &Ref) -> String {
    fn list(v: &[std::rc::Rc<Ref>], op: &str, empty: &str) -> String {
        match v.len() {
            0 => empty.to_string(),
            1 => re(&v[0]),
            _ => format!("({} {})", op, v.iter().map(|x| re(x)).collect::<Vec<_>>().join(" ")),
        }
    }
    match r {
        Ref::None => "re.none".into(),
        Ref::Eps => "(str.to_re \"\")".into(),
        Ref::Range(a, b) => {
            if *a == 0 && *b == MAXC {
                "re.allchar".into()
            } else if a == b {
                format!("(str.to_re {})", lit(&[*a]))
            } else {
                format!("(re.range {} {})", lit(&[*a]), lit(&[*b]))
            }
        }
        Ref::Cat(v) => list(v, "re.++", "(str.to_re \"\")"),
        Ref::Or(v) => list(v, "re.union", "re.none"),
        Ref::And(v) => list(v, "re.inter", "re.all"),
        Ref::Not(x) => format!("(re.comp {})", re(x)),
        Ref::Loop(x, lo, hi) => match hi {
            Some(h) if h < lo => "re.none".into(),
            Some(h) => format!("((_ re.loop {} {}) {})", lo, h, re(x)),
            None => {
                if *lo == 0 {
                    format!("(re.* {})", re(x))
                } else {
                    format!("(re.++ ((_ re.^ {}) {}) (re.* {}))", lo, re(x), re(x))
                }
            }
        },
    }
}
