//! Observation of a crate `Automaton` through its public API only.

use super::re::{Atoms, Dfa};
use crate::util::guard;
use aws_smt_strings::automata::Automaton;

/// all interval end points exposed by the states of the automaton
pub fn automaton_points(a: &Automaton) -> Vec<u32> {
    let mut v = Vec::new();
    for s in a.states() {
        for r in s.char_ranges() {
            let lo = r.pick();
            let hi = lo + (r.size() - 1);
            v.push(lo);
            v.push(hi);
        }
    }
    v.sort_unstable();
    v.dedup();
    v
}

#[derive(Debug)]
pub enum ObsError {
    /// `next`/`state` panicked or returned garbage: (state, char, message)
    Broken(String),
    /// two probes of one atom have different successors although no exposed break point separates them
    NonUniform(String),
}

/// Table state x atom -> successor, finality, initial state. Every cell is probed at both ends and the middle.
pub fn observe(auto: &Automaton, atoms: &Atoms) -> Result<Dfa, ObsError> {
    let n = auto.num_states();
    let a = atoms.n();
    let mut t = vec![0u32; n * a];
    let mut f = vec![false; n];
    let mut count = 0;
    for st in auto.states() {
        count += 1;
        let _ = st;
    }
    if count != n {
        return Err(ObsError::Broken(format!("states() yields {} states, num_states() = {}", count, n)));
    }
    for i in 0..n {
        let s = match guard(|| auto.state(i)) {
            Ok(s) => s,
            Err(m) => return Err(ObsError::Broken(format!("state({}) panicked: {}", i, m))),
        };
        if s.id() != i {
            return Err(ObsError::Broken(format!("state({}).id() = {}", i, s.id())));
        }
        f[i] = s.is_final();
        for k in 0..a {
            let mut first: Option<usize> = None;
            for c in atoms.probes(k) {
                let nx = match guard(|| auto.next(s, c).id()) {
                    Ok(x) => x,
                    Err(m) => return Err(ObsError::Broken(format!("next(state {}, char {:x}) panicked: {}", i, c, m))),
                };
                if nx >= n {
                    return Err(ObsError::Broken(format!("next(state {}, char {:x}) = {} out of range", i, c, nx)));
                }
                match first {
                    None => first = Some(nx),
                    Some(x) => {
                        if x != nx {
                            return Err(ObsError::NonUniform(format!(
                                "state {}: chars {:x} and {:x} lie in the same exposed class but go to {} and {}",
                                i, atoms.lo[k], c, x, nx
                            )));
                        }
                    }
                }
            }
            t[i * a + k] = first.unwrap() as u32;
        }
    }
    let init = auto.initial_state().id();
    if init >= n {
        return Err(ObsError::Broken(format!("initial state id {} out of range", init)));
    }
    Ok(Dfa { a, t, f, start: init as u32 })
}

/// full alphabet sweep of one automaton: every character must go where its atom goes
pub fn sweep(auto: &Automaton, atoms: &Atoms, d: &Dfa) -> Result<u64, String> {
    let mut probes = 0u64;
    for i in 0..auto.num_states() {
        let s = auto.state(i);
        for k in 0..atoms.n() {
            let want = d.step(i as u32, k) as usize;
            for c in atoms.lo[k]..=atoms.hi(k) {
                let nx = guard(|| auto.next(s, c).id()).map_err(|m| format!("next(state {}, char {:x}) panicked: {}", i, c, m))?;
                probes += 1;
                if nx != want {
                    return Err(format!("state {}: char {:x} goes to {} but its class goes to {}", i, c, nx, want));
                }
            }
        }
    }
    Ok(probes)
}
