//! Automaton specifications: AutomatonBuilder call sequences, their reading as a transition table,
//! classification (must-accept / must-reject / grey), and generators incl. structured families.

use crate::util::Rng;
use std::fmt::Write as _;

pub const MAXC: u32 = 0x2FFFF;

#[derive(Clone, Debug, PartialEq)]
pub enum Call {
    Trans(u32, u32, u32, u32), // state label, lo, hi, target label
    Default(u32, u32),
    Final(u32),
    /// an intermediate build() on the same builder (result discarded); the calls that follow extend the builder
    Build,
    /// the same with build_unchecked() (which may panic on a specification that is not yet complete; the caller survives it)
    BuildUnchecked,
}

#[derive(Clone, Debug)]
pub struct Spec {
    pub init: u32,
    pub calls: Vec<Call>,
}

#[derive(Clone, Debug, Default)]
pub struct StateSpec {
    pub label: u32,
    pub trans: Vec<(u32, u32, usize)>, // lo, hi, target index
    pub default: Option<usize>,
    pub is_final: bool,
}

#[derive(Clone, Copy, Debug, PartialEq)]
pub enum Class {
    MustAccept,
    MustReject,
    Grey,
}

impl Spec {
    pub fn to_text(&self) -> String {
        let mut o = format!("init {}\n", self.init);
        for c in &self.calls {
            match c {
                Call::Trans(s, a, b, t) => {
                    let _ = writeln!(o, "t {} {:x} {:x} {}", s, a, b, t);
                }
                Call::Default(s, t) => {
                    let _ = writeln!(o, "d {} {}", s, t);
                }
                Call::Final(s) => {
                    let _ = writeln!(o, "f {}", s);
                }
                Call::Build => {
                    let _ = writeln!(o, "b");
                }
                Call::BuildUnchecked => {
                    let _ = writeln!(o, "u");
                }
            }
        }
        o
    }

    pub fn from_text(t: &str) -> Result<Spec, String> {
        let mut init = 0;
        let mut calls = Vec::new();
        for line in t.lines() {
            let tk: Vec<&str> = line.split_whitespace().collect();
            if tk.is_empty() {
                continue;
            }
            let d = |s: &str| s.parse::<u32>().map_err(|e| e.to_string());
            let h = |s: &str| u32::from_str_radix(s, 16).map_err(|e| e.to_string());
            match (tk[0], tk.len()) {
                ("init", 2) => init = d(tk[1])?,
                ("t", 5) => calls.push(Call::Trans(d(tk[1])?, h(tk[2])?, h(tk[3])?, d(tk[4])?)),
                ("d", 3) => calls.push(Call::Default(d(tk[1])?, d(tk[2])?)),
                ("f", 2) => calls.push(Call::Final(d(tk[1])?)),
                ("b", 1) => calls.push(Call::Build),
                ("u", 1) => calls.push(Call::BuildUnchecked),
                _ => return Err(format!("bad line {}", line)),
            }
        }
        Ok(Spec { init, calls })
    }

    /// states in order of first mention (the initial state first), with their transitions
    pub fn table(&self) -> Vec<StateSpec> {
        let mut labels: Vec<u32> = vec![self.init];
        let mut idx = |l: u32, labels: &mut Vec<u32>| -> usize {
            match labels.iter().position(|&x| x == l) {
                Some(i) => i,
                None => {
                    labels.push(l);
                    labels.len() - 1
                }
            }
        };
        let mut states: Vec<StateSpec> = vec![StateSpec { label: self.init, ..Default::default() }];
        for c in &self.calls {
            let mut touch = |l: u32, states: &mut Vec<StateSpec>, labels: &mut Vec<u32>| -> usize {
                let i = idx(l, labels);
                while states.len() <= i {
                    let k = states.len();
                    states.push(StateSpec { label: labels[k], ..Default::default() });
                }
                i
            };
            match c {
                Call::Trans(s, a, b, t) => {
                    let i = touch(*s, &mut states, &mut labels);
                    let j = touch(*t, &mut states, &mut labels);
                    states[i].trans.push((*a, *b, j));
                }
                Call::Default(s, t) => {
                    let i = touch(*s, &mut states, &mut labels);
                    let j = touch(*t, &mut states, &mut labels);
                    states[i].default = Some(j);
                }
                Call::Final(s) => {
                    let i = touch(*s, &mut states, &mut labels);
                    states[i].is_final = true;
                }
                Call::Build | Call::BuildUnchecked => {}
            }
        }
        states
    }
}

impl StateSpec {
    /// successor for character c as the caller specified it: the explicit transition covering c, else the default
    pub fn succ(&self, c: u32) -> Option<usize> {
        for &(a, b, t) in &self.trans {
            if a <= c && c <= b {
                return Some(t);
            }
        }
        self.default
    }

    pub fn uncovered(&self) -> bool {
        let mut iv: Vec<(u32, u32)> = self.trans.iter().map(|&(a, b, _)| (a, b)).collect();
        iv.sort_unstable();
        let mut c: u64 = 0;
        for (a, b) in iv {
            if (a as u64) > c {
                return true;
            }
            c = c.max(b as u64 + 1);
        }
        c <= MAXC as u64
    }

    pub fn classify(&self) -> (Class, &'static str) {
        let mut overlap_same = false;
        for i in 0..self.trans.len() {
            for j in (i + 1)..self.trans.len() {
                let (a, b, t) = self.trans[i];
                let (c, d, u) = self.trans[j];
                if !(b < c || d < a) {
                    if t != u {
                        return (Class::MustReject, "conflict");
                    }
                    overlap_same = true;
                }
            }
        }
        let unc = self.uncovered();
        if unc && self.default.is_none() {
            return (Class::MustReject, "incomplete");
        }
        if overlap_same {
            return (Class::Grey, "overlap-same-target");
        }
        if !unc && self.default.is_some() {
            return (Class::Grey, "default-on-covered");
        }
        (Class::MustAccept, "well-formed")
    }
}

pub fn classify(states: &[StateSpec]) -> (Class, &'static str) {
    let mut grey = None;
    for s in states {
        match s.classify() {
            (Class::MustReject, why) => return (Class::MustReject, why),
            (Class::Grey, why) => grey = Some(why),
            _ => {}
        }
    }
    match grey {
        Some(w) => (Class::Grey, w),
        None => (Class::MustAccept, "well-formed"),
    }
}

/// characters at which the specified successor function may change
pub fn spec_points(states: &[StateSpec]) -> Vec<u32> {
    let mut v = Vec::new();
    for s in states {
        for &(a, b, _) in &s.trans {
            v.push(a);
            v.push(b);
        }
    }
    v.sort_unstable();
    v.dedup();
    v
}

// ------------------------------------------------------------------ generators

fn labels(rng: &mut Rng, n: usize) -> Vec<u32> {
    // arbitrary distinct u32 labels, not in index order
    let mut v: Vec<u32> = Vec::new();
    while v.len() < n {
        let l = match rng.below(3) {
            0 => rng.below(20) as u32,
            1 => 1000 + rng.below(50) as u32,
            _ => rng.next() as u32,
        };
        if !v.contains(&l) {
            v.push(l);
        }
    }
    v
}

fn cut_points(rng: &mut Rng, k: usize) -> Vec<u32> {
    let mut v: Vec<u32> = (0..k)
        .map(|_| match rng.below(6) {
            0 => rng.below(4) as u32,
            1 => MAXC - rng.below(4) as u32,
            2 | 3 => 0x61 + rng.below(8) as u32,
            _ => rng.below(0x30000) as u32,
        })
        .collect();
    v.sort_unstable();
    v.dedup();
    v
}

/// a random complete deterministic table: states x (disjoint intervals -> target, optional default)
pub struct Table {
    pub n: usize,
    pub rows: Vec<(Vec<(u32, u32, usize)>, Option<usize>)>,
    pub fin: Vec<bool>,
}

pub fn random_table(rng: &mut Rng, n: usize, shared_cuts: bool) -> Table {
    let ntargets = 1 + rng.usize(n.min(3));
    let targets: Vec<usize> = (0..ntargets).map(|_| rng.usize(n)).collect();
    let kc = 2 + rng.usize(6);
    let common = cut_points(rng, kc);
    let mut rows = Vec::new();
    for _ in 0..n {
        let kk = rng.usize(7);
        let cuts = if shared_cuts && rng.chance(2, 3) { common.clone() } else { cut_points(rng, kk) };
        let mut tr: Vec<(u32, u32, usize)> = Vec::new();
        let dense = rng.chance(1, 4);
        let few_targets = rng.chance(1, 2);
        let mut lo = 0u32;
        let mut bounds: Vec<(u32, u32)> = Vec::new();
        let mut done = false;
        for &c in &cuts {
            if c >= lo {
                bounds.push((lo, c));
                if c == MAXC {
                    done = true;
                    break;
                }
                lo = c + 1;
            }
        }
        if !done {
            bounds.push((lo, MAXC));
        }
        let mut uncovered = false;
        for (a, b) in bounds {
            if dense || rng.chance(1, 2) {
                let t = if few_targets { *rng.pick(&targets) } else { rng.usize(n) };
                tr.push((a, b, t));
            } else {
                uncovered = true;
            }
        }
        let def = if uncovered { Some(if few_targets { *rng.pick(&targets) } else { rng.usize(n) }) } else { None };
        rows.push((tr, def));
    }
    let fin: Vec<bool> = match rng.below(8) {
        0 => vec![true; n],
        1 => vec![false; n],
        _ => (0..n).map(|_| rng.chance(1, 3)).collect(),
    };
    Table { n, rows, fin }
}

/// structured families whose equivalent states are separated only by long words
pub fn structured_table(rng: &mut Rng, thorough: bool) -> Table {
    // occasionally a long automaton (hundreds of states)
    let long = rng.chance(1, 40);
    let maxn = if long { 120 + rng.usize(200) } else if thorough { 40 } else { 16 };
    let kind = rng.below(6);
    let letters: Vec<(u32, u32)> = {
        let k = 2 + rng.usize(4);
        let cuts = cut_points(rng, k);
        let mut v = Vec::new();
        for c in cuts {
            v.push((c, (c + rng.below(3) as u32).min(MAXC)));
        }
        v.sort_unstable();
        let mut out: Vec<(u32, u32)> = Vec::new();
        for (a, b) in v {
            if out.last().map_or(true, |l| l.1 < a) {
                out.push((a, b));
            }
        }
        out
    };
    let nl = letters.len();
    let mut n;
    let mut delta: Vec<Vec<usize>>; // state x letter -> target ; letter nl = "everything else"
    let mut fin: Vec<bool>;
    match kind {
        0 | 1 => {
            // cycle / mod-k counter on letter 0, other letters keep the state (or reset)
            let k = if rng.chance(1, 4) { *rng.pick(&[7usize, 8, 9, 15, 16, 17, 31, 32, 33, 63, 64, 65]) } else { 2 + rng.usize(maxn / 2) };
            n = k;
            delta = (0..k).map(|s| (0..=nl).map(|l| if l == 0 { (s + 1) % k } else if rng.chance(1, 6) { 0 } else { s }).collect()).collect();
            fin = (0..k).map(|s| s == k - 1).collect();
            if kind == 1 {
                // product with a mod-2 counter on letter 1 (if any)
                let k2 = 2;
                let mut d2 = Vec::new();
                let mut f2 = Vec::new();
                for s in 0..k {
                    for u in 0..k2 {
                        let row: Vec<usize> = (0..=nl)
                            .map(|l| {
                                let ns = delta[s][l];
                                let nu = if l == 1 % (nl + 1) { (u + 1) % k2 } else { u };
                                ns * k2 + nu
                            })
                            .collect();
                        d2.push(row);
                        f2.push(fin[s] && u == 0);
                    }
                }
                n = k * k2;
                delta = d2;
                fin = f2;
            }
        }
        2 => {
            // chain ending in a sink: states separated by words of length ~ n
            let k = 3 + rng.usize(maxn - 3);
            n = k;
            delta = (0..k).map(|s| (0..=nl).map(|l| if l == 0 { (s + 1).min(k - 1) } else { k - 1 }).collect()).collect();
            fin = (0..k).map(|s| s == k - 2).collect();
        }
        3 => {
            // two copies of a small random automaton glued by a fresh initial state: every state has a twin
            let k = 2 + rng.usize(maxn / 3);
            let base: Vec<Vec<usize>> = (0..k).map(|_| (0..=nl).map(|_| rng.usize(k)).collect()).collect();
            let bf: Vec<bool> = (0..k).map(|_| rng.chance(1, 3)).collect();
            n = 2 * k + 1;
            delta = Vec::new();
            fin = Vec::new();
            for c in 0..2 {
                for s in 0..k {
                    // cross edges into the other copy keep the language of the twin identical
                    delta.push(base[s].iter().map(|&t| if rng.chance(1, 3) { (1 - c) * k + t } else { c * k + t }).collect());
                    fin.push(bf[s]);
                }
            }
            delta.push((0..=nl).map(|l| if l % 2 == 0 { 0 } else { k }).collect());
            fin.push(false);
        }
        4 => {
            // binary counter: states = bit patterns, letter 0 increments, distinguishing needs long words
            let bits = 2 + rng.usize(if thorough { 4 } else { 3 });
            n = 1 << bits;
            delta = (0..n).map(|s| (0..=nl).map(|l| if l == 0 { (s + 1) % n } else if l == 1 { (s * 2) % n } else { s }).collect()).collect();
            fin = (0..n).map(|s| s == n - 1).collect();
        }
        _ => {
            // random dense automaton over many letters (rows without default, colliding exceptions)
            n = 3 + rng.usize(maxn - 3);
            delta = (0..n).map(|_| (0..=nl).map(|_| rng.usize(n.min(4))).collect()).collect();
            fin = (0..n).map(|_| rng.chance(1, 2)).collect();
        }
    }
    // optional: add predecessor-less states (unreachable), including inequivalent ones
    let mut extra = if rng.chance(1, 2) { rng.usize(4) } else { 0 };
    // sometimes land exactly on 63, 64 or 65 states in total, with at least one unreachable state
    if n >= 56 && n <= 64 && rng.chance(2, 3) {
        let target = *rng.pick(&[63usize, 64, 64, 64, 65]);
        if target > n {
            extra = target - n;
        }
    }
    for e in 0..extra {
        delta.push((0..=nl).map(|_| rng.usize(n)).collect());
        fin.push(if e % 2 == 0 { rng.chance(1, 2) } else { true });
    }
    let total = n + extra;
    // turn into rows: explicit transitions for letters, default for the rest; sometimes make the row dense
    let mut rows = Vec::new();
    for s in 0..total {
        let mut tr = Vec::new();
        let def = delta[s][nl];
        let explicit_default_target = rng.chance(1, 3);
        for (l, &(a, b)) in letters.iter().enumerate() {
            if delta[s][l] != def || explicit_default_target || rng.chance(1, 4) {
                tr.push((a, b, delta[s][l]));
            }
        }
        rows.push((tr, Some(def)));
    }
    // letters may tile nothing: default always needed unless the letters cover the alphabet (they never do here)
    Table { n: total, rows, fin }
}

/// emit builder calls for a table, in shuffled order, with arbitrary labels; `init` is state 0 of the table
pub fn spec_of_table(rng: &mut Rng, t: &Table) -> Spec {
    let lab = labels(rng, t.n);
    let mut calls = Vec::new();
    for s in 0..t.n {
        for &(a, b, tg) in &t.rows[s].0 {
            calls.push(Call::Trans(lab[s], a, b, lab[tg]));
        }
        if let Some(d) = t.rows[s].1 {
            calls.push(Call::Default(lab[s], lab[d]));
        }
        if t.fin[s] {
            calls.push(Call::Final(lab[s]));
        }
    }
    rng.shuffle(&mut calls);
    // the builder API allows calling set_default_successor / mark_final repeatedly: the last default wins and
    // marking twice is marking once. Insert earlier (overridden) defaults and repeated marks.
    if rng.chance(1, 3) {
        let defs: Vec<(usize, u32)> = calls.iter().enumerate().filter_map(|(i, c)| if let Call::Default(s, _) = c { Some((i, *s)) } else { None }).collect();
        for (pos, s) in defs.into_iter().rev() {
            if rng.chance(1, 2) {
                // an earlier declaration with another target (often the target of one of the state's transitions)
                let targets: Vec<u32> = calls.iter().filter_map(|c| if let Call::Trans(x, _, _, t) = c { if *x == s { Some(*t) } else { None } } else { None }).collect();
                let tg = if !targets.is_empty() && rng.chance(2, 3) { *rng.pick(&targets) } else { *rng.pick(&lab) };
                let at = rng.usize(pos + 1);
                calls.insert(at, Call::Default(s, tg));
            }
        }
        let fins: Vec<u32> = calls.iter().filter_map(|c| if let Call::Final(s) = c { Some(*s) } else { None }).collect();
        for s in fins {
            if rng.chance(1, 2) {
                let at = rng.usize(calls.len() + 1);
                calls.insert(at, Call::Final(s));
            }
        }
    }
    // states that have neither transitions nor default nor finality would never be mentioned: they do not
    // exist for the builder either, which is fine (they are unreachable and absent)
    Spec { init: lab[0], calls }
}

pub fn gen_wellformed(rng: &mut Rng, thorough: bool) -> Spec {
    if rng.chance(1, 30) {
        // any number of labels per state between 9 and 330 (not only the counts next to powers of two)
        let ns = 2 + rng.below(3) as u32;
        let k = 9 + rng.below(322) as u32;
        return many_successors_spec(ns, k);
    }
    if rng.chance(2, 5) {
        let t = structured_table(rng, thorough);
        spec_of_table(rng, &t)
    } else {
        let big = thorough && rng.chance(1, 4);
        let n = 1 + rng.usize(if big { 40 } else { 12 });
        let shared = rng.chance(1, 2);
        let t = random_table(rng, n, shared);
        spec_of_table(rng, &t)
    }
}

/// break a well-formed spec: what kind of defect was injected is returned
pub fn gen_broken(rng: &mut Rng, thorough: bool) -> (Spec, &'static str) {
    if rng.chance(1, 12) {
        // a state without default whose labels double-count exactly as many characters as they leave uncovered:
        // the label sizes add up to the size of the alphabet although the state is incomplete (and, with two
        // targets, nondeterministic)
        let l = labels(rng, 3);
        let kmax = if rng.chance(1, 2) { 3 } else { 200 };
        let k = 1 + rng.below(kmax) as u32;
        let cut = k + rng.below(0x1000) as u32;
        // [0, cut] and [cut - k + 1, MAX - k]: k characters twice, the last k characters not at all
        let t2 = if rng.chance(1, 2) { l[1] } else { l[2] };
        let mut calls = vec![Call::Trans(l[0], 0, cut, l[1]), Call::Trans(l[0], cut - k + 1, MAXC - k, t2), Call::Default(l[1], l[1]), Call::Default(l[2], l[1])];
        if rng.chance(1, 2) {
            // the gap in the middle instead of at the end
            calls[1] = Call::Trans(l[0], cut + 1 + k, MAXC, t2);
            calls.push(Call::Trans(l[0], cut - k + 1, cut, t2));
        }
        if rng.chance(1, 2) {
            calls.push(Call::Final(l[1]));
        }
        rng.shuffle(&mut calls);
        return (Spec { init: l[0], calls }, "overlap-equals-gap");
    }
    let mut spec = gen_wellformed(rng, thorough);
    let kind = rng.below(6);
    match kind {
        0 | 1 => {
            // incomplete: drop the default of a state that needs it (prefer states whose explicit
            // transitions all go to one target: the shape that cleanup-before-validation accepts)
            let defs: Vec<usize> = spec.calls.iter().enumerate().filter(|(_, c)| matches!(c, Call::Default(..))).map(|(i, _)| i).collect();
            if !defs.is_empty() {
                let i = *rng.pick(&defs);
                spec.calls.remove(i);
            }
            (spec, "dropped-default")
        }
        2 => {
            // incomplete by construction: one transition (or several to one target) and no default
            let l = labels(rng, 3);
            let mut calls = vec![Call::Trans(l[0], 0x61, 0x61 + rng.below(3) as u32, l[1]), Call::Default(l[1], l[1])];
            if rng.chance(1, 2) {
                calls.push(Call::Trans(l[0], 0x70, 0x71, l[1]));
            }
            if rng.chance(1, 2) {
                calls.push(Call::Trans(l[0], 0x80, 0x81, l[2]));
                calls.push(Call::Default(l[2], l[1]));
            }
            if rng.chance(1, 2) {
                calls.push(Call::Final(l[1]));
            }
            rng.shuffle(&mut calls);
            (Spec { init: l[0], calls }, "single-target-no-default")
        }
        3 | 4 => {
            // conflict: overlapping label with a different target; often the other target is the state's default
            let tr: Vec<usize> = spec.calls.iter().enumerate().filter(|(_, c)| matches!(c, Call::Trans(..))).map(|(i, _)| i).collect();
            if tr.is_empty() {
                return gen_broken(rng, thorough);
            }
            let i = *rng.pick(&tr);
            if let Call::Trans(s, a, b, t) = spec.calls[i].clone() {
                let table = spec.table();
                let st = table.iter().find(|x| x.label == s).unwrap();
                let all_labels: Vec<u32> = table.iter().map(|x| x.label).collect();
                let other: Vec<u32> = all_labels.iter().copied().filter(|&x| x != t).collect();
                let mut tg = if other.is_empty() { t.wrapping_add(1) } else { *rng.pick(&other) };
                if let Some(d) = st.default {
                    if table[d].label != t && rng.chance(2, 3) {
                        tg = table[d].label; // conflict with a transition into the default target
                    }
                }
                let x = a + rng.below((b - a + 1) as u64) as u32;
                let mut lo = x.saturating_sub(rng.below(2) as u32);
                let mut hi = (x + rng.below(2) as u32).min(MAXC);
                if rng.chance(1, 3) {
                    // the very same label twice, with two different targets
                    lo = a;
                    hi = b;
                }
                let pos = rng.usize(spec.calls.len() + 1);
                spec.calls.insert(pos, Call::Trans(s, lo, hi, tg));
                // the new target must itself be a complete state: give it a default if it is new
                if !all_labels.contains(&tg) {
                    spec.calls.push(Call::Default(tg, tg));
                }
            }
            (spec, "conflict")
        }
        _ => {
            // a state mentioned only as a target
            let tr: Vec<usize> = spec.calls.iter().enumerate().filter(|(_, c)| matches!(c, Call::Trans(..))).map(|(i, _)| i).collect();
            if tr.is_empty() {
                return gen_broken(rng, thorough);
            }
            let i = *rng.pick(&tr);
            if let Call::Trans(s, a, b, _) = spec.calls[i].clone() {
                spec.calls[i] = Call::Trans(s, a, b, 0xDEAD0000 + rng.below(100) as u32);
            }
            (spec, "dangling-target")
        }
    }
}

pub fn gen_grey(rng: &mut Rng, thorough: bool) -> Spec {
    let mut spec = gen_wellformed(rng, thorough);
    let tr: Vec<usize> = spec.calls.iter().enumerate().filter(|(_, c)| matches!(c, Call::Trans(..))).map(|(i, _)| i).collect();
    if let Some(&i) = tr.first() {
        if let Call::Trans(s, a, b, t) = spec.calls[i].clone() {
            if rng.chance(1, 2) {
                // overlapping label with the same target
                let x = a + rng.below((b - a + 1) as u64) as u32;
                spec.calls.push(Call::Trans(s, x, (x + 1).min(MAXC).max(x), t));
            } else {
                // default declared although the labels cover everything
                let l = labels(rng, 2);
                spec.calls.push(Call::Trans(l[0], 0, MAXC, t));
                // the default is never used (the label covers everything); sometimes it names another state
                let dt = if rng.chance(1, 2) { t } else { s };
                if rng.chance(1, 2) {
                    spec.calls.push(Call::Default(l[0], dt));
                } else {
                    spec.calls.insert(0, Call::Default(l[0], dt));
                }
            }
        }
    }
    spec
}

/// Two branches that only a word mixing letters from far-apart parts of a very large alphabet tells apart:
/// init -x0-> P0 -L0-> P1 -L1-> ... -L(d-1)-> final   and   init -x1-> Q0 -L0-> Q1 ... -L(d-1)-> sink,
/// with `fillers` one-character classes (self loops on the final state) between consecutive letters L_i, so that the
/// letters are more than `fillers` alphabet indices apart. All 2d + 4 states are pairwise inequivalent.
pub fn far_letters_spec(depth: u32, fillers: u32) -> Spec {
    let mut calls = Vec::new();
    let (init, fin, sink) = (0u32, 1u32, 2u32);
    let p = |i: u32| 10 + i;
    let q = |i: u32| 100 + i;
    let gap = 2 * fillers + 0x100;
    let letter = |i: u32| 0x1000 + i * gap;
    calls.push(Call::Trans(init, 0x30, 0x30, p(0)));
    calls.push(Call::Trans(init, 0x31, 0x31, q(0)));
    calls.push(Call::Default(init, sink));
    for i in 0..depth {
        let last = i + 1 == depth;
        calls.push(Call::Trans(p(i), letter(i), letter(i), if last { fin } else { p(i + 1) }));
        calls.push(Call::Default(p(i), sink));
        calls.push(Call::Trans(q(i), letter(i), letter(i), if last { sink } else { q(i + 1) }));
        calls.push(Call::Default(q(i), sink));
    }
    for i in 0..depth {
        for f in 0..fillers {
            let c = letter(i) + 0x10 + 2 * f;
            calls.push(Call::Trans(fin, c, c, fin));
        }
    }
    calls.push(Call::Default(fin, sink));
    calls.push(Call::Default(sink, sink));
    calls.push(Call::Final(fin));
    Spec { init, calls }
}

/// `nstates` states that each have `labels` single-character transitions, two thirds of them explicit (to three
/// rotating targets, the third being the state's default); the rows of the states interleave in a compact table
pub fn many_successors_spec(nstates: u32, labels: u32) -> Spec {
    let mut calls = Vec::new();
    let sink = nstates;
    for st in 0..nstates {
        for i in 0..labels {
            let c = 0x100 + 3 * i + st;
            let tgt = match (i + st) % 3 {
                0 => (st + 1) % nstates,
                1 => (st + 2) % nstates,
                _ => sink,
            };
            calls.push(Call::Trans(st, c, c, tgt));
        }
        calls.push(Call::Default(st, sink));
    }
    calls.push(Call::Default(sink, sink));
    calls.push(Call::Final(1 % nstates));
    Spec { init: 0, calls }
}

/// A reachable state whose explicit labels cover the whole alphabet and that ALSO declares a default successor,
/// a state that nothing else leads to. (Grey for build(): it may reject the superfluous default; if it accepts,
/// no character takes the default, so that state is unreachable.)
pub fn gen_superfluous_default(rng: &mut Rng) -> Spec {
    let (init, seen, trap) = (0u32, 1u32, 2u32);
    let mut calls = Vec::new();
    // cut points of the cover
    let k = 1 + rng.usize(3);
    let mut cuts: Vec<u32> = (0..k).map(|_| 1 + rng.below(MAXC as u64 - 1) as u32).collect();
    cuts.sort_unstable();
    cuts.dedup();
    let mut lo = 0u32;
    let mut pieces: Vec<(u32, u32)> = Vec::new();
    for &c in &cuts {
        pieces.push((lo, c - 1));
        lo = c;
    }
    pieces.push((lo, MAXC));
    for (i, &(a, b)) in pieces.iter().enumerate() {
        calls.push(Call::Trans(init, a, b, if i % 2 == 1 { seen } else { init }));
    }
    let d = Call::Default(init, trap);
    if rng.chance(1, 2) {
        calls.push(d);
    } else {
        calls.insert(0, d);
    }
    calls.push(Call::Default(seen, if rng.chance(1, 2) { seen } else { init }));
    calls.push(Call::Default(trap, trap));
    calls.push(Call::Final(seen));
    if rng.chance(1, 3) {
        calls.push(Call::Final(trap));
    }
    Spec { init, calls }
}
