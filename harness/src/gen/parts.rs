//! Generators for character partitions (as interval lists) with hostile alignments.

use crate::util::Rng;

pub const MAXC: u32 = 0x2FFFF;

/// sorted, disjoint, non-empty intervals
pub type Ivs = Vec<(u32, u32)>;

fn point(rng: &mut Rng) -> u32 {
    match rng.below(10) {
        0 | 1 => rng.below(8) as u32,                  // near 0
        2 | 3 => MAXC - rng.below(8) as u32,           // near the top
        4..=6 => 0x30 + rng.below(0x50) as u32,        // ascii cluster
        7 => 0x60 + rng.below(8) as u32,               // tight cluster: adjacent intervals likely
        _ => rng.below(0x30000) as u32,
    }
}

/// segments shape: cut the alphabet at a few clustered points and make every segment an interval or a gap.
/// Produces adjacent intervals, single-character holes, coverage from 0 and up to MAXC (or MAXC-1).
pub fn gen_segments(rng: &mut Rng, max_n: usize) -> Ivs {
    let k = 1 + rng.usize(2 * max_n);
    let mut cuts: Vec<u32> = (0..k).map(|_| point(rng)).collect();
    if rng.chance(1, 3) {
        cuts.push(MAXC);
    }
    if rng.chance(1, 4) {
        cuts.push(1);
    }
    cuts.push(0);
    cuts.sort_unstable();
    cuts.dedup();
    let p_interval = [50u64, 65, 85, 100][rng.usize(4)];
    let mut out: Ivs = Vec::new();
    for (i, &lo) in cuts.iter().enumerate() {
        let hi = if i + 1 < cuts.len() { cuts[i + 1] - 1 } else { MAXC };
        if rng.below(100) < p_interval && out.len() < max_n + 4 {
            out.push((lo, hi));
        }
    }
    out
}

pub fn gen_intervals(rng: &mut Rng, max_n: usize) -> Ivs {
    if rng.chance(1, 40) {
        // occasionally a large partition (dozens to hundreds of intervals)
        let n = 30 + rng.usize(200);
        let mut cuts: Vec<u32> = (0..2 * n).map(|_| if rng.chance(1, 2) { rng.below(0x30000) as u32 } else { rng.below(2000) as u32 }).collect();
        cuts.push(0);
        cuts.sort_unstable();
        cuts.dedup();
        let mut out: Ivs = Vec::new();
        for (i, &lo) in cuts.iter().enumerate() {
            let hi = if i + 1 < cuts.len() { cuts[i + 1] - 1 } else { MAXC };
            if rng.chance(2, 3) {
                out.push((lo, hi));
            }
        }
        return out;
    }
    if rng.chance(1, 25) {
        // exactly N intervals, N around a power of two
        let n = *rng.pick(&[7usize, 8, 9, 15, 16, 17, 31, 32, 33, 63, 64, 65]);
        let step = (MAXC / (n as u32 + 1)).max(4);
        let jitter = rng.below(3) as u32;
        let mut out: Ivs = Vec::new();
        for i in 0..n as u32 {
            let a = if rng.chance(1, 2) { i * 3 + jitter } else { i * step + jitter };
            let b = a + if rng.chance(1, 2) { 0 } else { 1 };
            if out.last().map_or(true, |l| l.1 < a) {
                out.push((a, b.min(MAXC)));
            }
        }
        if out.len() == n {
            return out;
        }
    }
    if rng.chance(2, 5) {
        return gen_segments(rng, max_n);
    }
    match rng.below(20) {
        0 => return vec![],
        1 => return vec![(0, MAXC)],
        2 => return vec![(0, 0)],
        3 => return vec![(MAXC, MAXC)],
        _ => {}
    }
    let n = 1 + rng.usize(max_n);
    let mut pts: Vec<u32> = (0..2 * n).map(|_| point(rng)).collect();
    pts.sort_unstable();
    let mut out: Ivs = Vec::new();
    let mut i = 0;
    while i + 1 < pts.len() {
        let (a, b) = (pts[i], if rng.chance(1, 4) { pts[i] } else { pts[i + 1] });
        if out.last().map_or(true, |l| l.1 < a) {
            out.push((a, b));
        }
        i += 2;
    }
    // sometimes make neighbours adjacent (b_i + 1 = a_{i+1}) or tile the whole alphabet
    if rng.chance(1, 4) {
        for i in 1..out.len() {
            if rng.chance(1, 2) && out[i - 1].1 + 1 <= out[i].1 {
                out[i].0 = out[i - 1].1 + 1;
            }
        }
    }
    if rng.chance(1, 12) && !out.is_empty() {
        out[0].0 = 0;
        for i in 1..out.len() {
            out[i].0 = out[i - 1].1 + 1;
        }
        let l = out.len() - 1;
        out[l].1 = MAXC;
        out.retain(|&(a, b)| a <= b);
    }
    out
}

/// class of x by definition: index of the interval containing x, or None (complement)
pub fn class_of(p: &Ivs, x: u32) -> Option<usize> {
    p.iter().position(|&(a, b)| a <= x && x <= b)
}

/// least character not covered, or MAXC+1
pub fn witness(p: &Ivs) -> u32 {
    let mut c = 0u32;
    for &(a, b) in p {
        if c < a {
            return c;
        }
        c = b + 1;
    }
    c
}

/// all break points: for every end point p: p-1, p, p+1 (clamped), an interior point of every interval and gap, 0, MAXC
pub fn break_points(ps: &[&Ivs]) -> Vec<u32> {
    let mut v = vec![0, MAXC, MAXC / 2];
    for p in ps {
        let mut prev_end: Option<u32> = None;
        for &(a, b) in p.iter() {
            for e in [a, b] {
                v.push(e);
                if e > 0 {
                    v.push(e - 1);
                }
                if e < MAXC {
                    v.push(e + 1);
                }
            }
            v.push(a + (b - a) / 2);
            let gap_lo = prev_end.map_or(0, |e| e + 1);
            if gap_lo < a {
                v.push(gap_lo + (a - 1 - gap_lo) / 2);
            }
            prev_end = Some(b);
        }
        if let Some(e) = prev_end {
            if e < MAXC {
                v.push(e + 1 + (MAXC - e - 1) / 2);
            }
        }
    }
    v.sort_unstable();
    v.dedup();
    v
}

pub fn show(p: &Ivs) -> String {
    let parts: Vec<String> = p.iter().map(|&(a, b)| format!("{:x}-{:x}", a, b)).collect();
    format!("{{{}}}", parts.join(" "))
}

pub fn parse(t: &str) -> Ivs {
    t.trim()
        .trim_start_matches('{')
        .trim_end_matches('}')
        .split_whitespace()
        .filter_map(|s| {
            let mut it = s.split('-');
            let a = u32::from_str_radix(it.next()?, 16).ok()?;
            let b = u32::from_str_radix(it.next()?, 16).ok()?;
            Some((a, b))
        })
        .collect()
}
