//! Regular-expression construction programs: generation, text format, execution on both API surfaces.

use crate::oracle::re::*;
use crate::util::Rng;
use aws_smt_strings::character_sets::CharSet;
use aws_smt_strings::loop_ranges::LoopRange;
use aws_smt_strings::regular_expressions::{ReManager, RegLan};
use aws_smt_strings::smt_regular_expressions as w;
use aws_smt_strings::smt_strings::SmtString;
use std::fmt::Write as _;

#[derive(Clone, Debug, PartialEq)]
pub enum Op {
    Empty,
    Eps,
    AllChar,
    Full,
    SigmaPlus,
    Char(u32),
    Range(u32, u32),
    CharSet(u32, u32),
    SmtRange(Vec<u32>, Vec<u32>),
    Str(Vec<u32>),
    Concat(usize, usize),
    ConcatList(Vec<usize>),
    Union(usize, usize),
    UnionList(Vec<usize>),
    Inter(usize, usize),
    InterList(Vec<usize>),
    Comp(usize),
    Diff(usize, usize),
    DiffList(usize, Vec<usize>),
    Star(usize),
    Plus(usize),
    Opt(usize),
    Exp(usize, u32),
    SmtLoop(usize, u32, u32),
    LoopFin(usize, u32, u32),
    LoopInf(usize, u32),
    /// macro constructor: the union of n two-letter words [b1 + s1*k][b2 + s2*k], k < n, given to union_list in a
    /// scrambled order (tree = false) or folded as a balanced tree of binary unions (tree = true); with extra, a
    /// one-letter range and a character it subsumes are among the operands
    Wide { n: u32, b1: u32, s1: u32, b2: u32, s2: u32, extra: bool, tree: bool, ord: u8 },
}

pub const WIDE_EXTRA: u32 = 0x2F000;

/// a fixed scrambled order of 0..n
pub fn wide_order(n: u32) -> Vec<u32> {
    fn gcd(a: u32, b: u32) -> u32 {
        if b == 0 {
            a
        } else {
            gcd(b, a % b)
        }
    }
    let mut st = n / 2 + 1;
    while gcd(st, n) != 1 {
        st += 1;
    }
    (0..n).map(|k| ((k as u64 * st as u64 + 1) % n as u64) as u32).collect()
}

/// the operand words of Op::Wide in the order they are handed to the constructor: (first, last) or a one-letter range
pub fn wide_items(n: u32, b1: u32, s1: u32, b2: u32, s2: u32, extra: bool, ord: u8) -> Vec<Result<(u32, u32), (u32, u32)>> {
    // operand order: 0 scrambled, 1 ascending, 2 descending first letters
    let order: Vec<u32> = match ord {
        1 => (0..n).collect(),
        2 => (0..n).rev().collect(),
        _ => wide_order(n),
    };
    let mut v: Vec<Result<(u32, u32), (u32, u32)>> = order.into_iter().map(|k| Ok((b1 + s1 * k, b2 + s2 * k))).collect();
    if extra {
        let h = v.len() / 2;
        v.insert(h, Err((WIDE_EXTRA, WIDE_EXTRA + 2)));
        v.push(Err((WIDE_EXTRA + 1, WIDE_EXTRA + 1)));
    }
    v
}

fn balanced<T: Copy>(items: &[T], f: &mut impl FnMut(T, T) -> T) -> T {
    if items.len() == 1 {
        items[0]
    } else {
        let h = items.len() / 2;
        let l = balanced(&items[..h], f);
        let r = balanced(&items[h..], f);
        f(l, r)
    }
}

impl Op {
    pub fn name(&self) -> &'static str {
        match self {
            Op::Empty => "empty",
            Op::Eps => "eps",
            Op::AllChar => "allchar",
            Op::Full => "full",
            Op::SigmaPlus => "sigmaplus",
            Op::Char(..) => "char",
            Op::Range(..) => "range",
            Op::CharSet(..) => "charset",
            Op::SmtRange(..) => "smtrange",
            Op::Str(..) => "str",
            Op::Concat(..) => "concat",
            Op::ConcatList(..) => "concatlist",
            Op::Union(..) => "union",
            Op::UnionList(..) => "unionlist",
            Op::Inter(..) => "inter",
            Op::InterList(..) => "interlist",
            Op::Comp(..) => "comp",
            Op::Diff(..) => "diff",
            Op::DiffList(..) => "difflist",
            Op::Star(..) => "star",
            Op::Plus(..) => "plus",
            Op::Opt(..) => "opt",
            Op::Exp(..) => "exp",
            Op::SmtLoop(..) => "smtloop",
            Op::LoopFin(..) => "loopfin",
            Op::LoopInf(..) => "loopinf",
            Op::Wide { .. } => "wide",
        }
    }

    pub fn operands(&self) -> Vec<usize> {
        match self {
            Op::Concat(i, j) | Op::Union(i, j) | Op::Inter(i, j) | Op::Diff(i, j) => vec![*i, *j],
            Op::ConcatList(v) | Op::UnionList(v) | Op::InterList(v) => v.clone(),
            Op::DiffList(i, v) => {
                let mut r = vec![*i];
                r.extend_from_slice(v);
                r
            }
            Op::Comp(i) | Op::Star(i) | Op::Plus(i) | Op::Opt(i) | Op::Exp(i, _) | Op::SmtLoop(i, _, _) | Op::LoopFin(i, _, _) | Op::LoopInf(i, _) => vec![*i],
            _ => vec![],
        }
    }

    pub fn to_text(&self) -> String {
        fn hex(v: &[u32]) -> String {
            v.iter().map(|c| format!("{:x}", c)).collect::<Vec<_>>().join(" ")
        }
        fn idx(v: &[usize]) -> String {
            v.iter().map(|c| format!("{}", c)).collect::<Vec<_>>().join(" ")
        }
        let n = self.name();
        match self {
            Op::Empty | Op::Eps | Op::AllChar | Op::Full | Op::SigmaPlus => n.to_string(),
            Op::Char(c) => format!("{} {:x}", n, c),
            Op::Range(a, b) | Op::CharSet(a, b) => format!("{} {:x} {:x}", n, a, b),
            Op::SmtRange(a, b) => format!("{} {} ; {}", n, hex(a), hex(b)),
            Op::Str(s) => format!("{} {}", n, hex(s)),
            Op::Concat(i, j) | Op::Union(i, j) | Op::Inter(i, j) | Op::Diff(i, j) => format!("{} {} {}", n, i, j),
            Op::ConcatList(v) | Op::UnionList(v) | Op::InterList(v) => format!("{} {}", n, idx(v)),
            Op::DiffList(i, v) => format!("{} {} : {}", n, i, idx(v)),
            Op::Comp(i) | Op::Star(i) | Op::Plus(i) | Op::Opt(i) => format!("{} {}", n, i),
            Op::Exp(i, k) | Op::LoopInf(i, k) => format!("{} {} {}", n, i, k),
            Op::SmtLoop(i, a, b) | Op::LoopFin(i, a, b) => format!("{} {} {} {}", n, i, a, b),
            Op::Wide { n: k, b1, s1, b2, s2, extra, tree, ord } => format!("{} {} {:x} {} {:x} {} {} {} {}", n, k, b1, s1, b2, s2, *extra as u8, *tree as u8, ord),
        }
    }

    pub fn from_text(line: &str) -> Result<Op, String> {
        let toks: Vec<&str> = line.split_whitespace().collect();
        if toks.is_empty() {
            return Err("empty line".into());
        }
        let hx = |s: &str| u32::from_str_radix(s, 16).map_err(|e| format!("{}: {}", s, e));
        let ix = |s: &str| s.parse::<usize>().map_err(|e| format!("{}: {}", s, e));
        let nu = |s: &str| s.parse::<u32>().map_err(|e| format!("{}: {}", s, e));
        let a = &toks[1..];
        let need = |k: usize| if a.len() == k { Ok(()) } else { Err(format!("bad arity in '{}'", line)) };
        Ok(match toks[0] {
            "empty" => Op::Empty,
            "eps" => Op::Eps,
            "allchar" => Op::AllChar,
            "full" => Op::Full,
            "sigmaplus" => Op::SigmaPlus,
            "char" => {
                need(1)?;
                Op::Char(hx(a[0])?)
            }
            "range" => {
                need(2)?;
                Op::Range(hx(a[0])?, hx(a[1])?)
            }
            "charset" => {
                need(2)?;
                Op::CharSet(hx(a[0])?, hx(a[1])?)
            }
            "smtrange" => {
                let p = a.iter().position(|&t| t == ";").ok_or("missing ;")?;
                let s1: Result<Vec<u32>, _> = a[..p].iter().map(|t| hx(t)).collect();
                let s2: Result<Vec<u32>, _> = a[p + 1..].iter().map(|t| hx(t)).collect();
                Op::SmtRange(s1?, s2?)
            }
            "str" => {
                let s: Result<Vec<u32>, _> = a.iter().map(|t| hx(t)).collect();
                Op::Str(s?)
            }
            "concat" => {
                need(2)?;
                Op::Concat(ix(a[0])?, ix(a[1])?)
            }
            "union" => {
                need(2)?;
                Op::Union(ix(a[0])?, ix(a[1])?)
            }
            "inter" => {
                need(2)?;
                Op::Inter(ix(a[0])?, ix(a[1])?)
            }
            "diff" => {
                need(2)?;
                Op::Diff(ix(a[0])?, ix(a[1])?)
            }
            "concatlist" => Op::ConcatList(a.iter().map(|t| ix(t)).collect::<Result<_, _>>()?),
            "unionlist" => Op::UnionList(a.iter().map(|t| ix(t)).collect::<Result<_, _>>()?),
            "interlist" => Op::InterList(a.iter().map(|t| ix(t)).collect::<Result<_, _>>()?),
            "difflist" => {
                let p = a.iter().position(|&t| t == ":").ok_or("missing :")?;
                if p != 1 {
                    return Err("difflist: bad format".into());
                }
                Op::DiffList(ix(a[0])?, a[2..].iter().map(|t| ix(t)).collect::<Result<_, _>>()?)
            }
            "comp" => {
                need(1)?;
                Op::Comp(ix(a[0])?)
            }
            "star" => {
                need(1)?;
                Op::Star(ix(a[0])?)
            }
            "plus" => {
                need(1)?;
                Op::Plus(ix(a[0])?)
            }
            "opt" => {
                need(1)?;
                Op::Opt(ix(a[0])?)
            }
            "exp" => {
                need(2)?;
                Op::Exp(ix(a[0])?, nu(a[1])?)
            }
            "loopinf" => {
                need(2)?;
                Op::LoopInf(ix(a[0])?, nu(a[1])?)
            }
            "smtloop" => {
                need(3)?;
                Op::SmtLoop(ix(a[0])?, nu(a[1])?, nu(a[2])?)
            }
            "loopfin" => {
                need(3)?;
                Op::LoopFin(ix(a[0])?, nu(a[1])?, nu(a[2])?)
            }
            "wide" => {
                if a.len() != 7 && a.len() != 8 {
                    return Err(format!("bad arity in '{}'", line));
                }
                Op::Wide { n: nu(a[0])?, b1: hx(a[1])?, s1: nu(a[2])?, b2: hx(a[3])?, s2: nu(a[4])?, extra: a[5] == "1", tree: a[6] == "1", ord: if a.len() == 8 { nu(a[7])? as u8 } else { 0 } }
            }
            x => return Err(format!("unknown op {}", x)),
        })
    }

    /// SMT-LIB denotation of this constructor applied to the denotations in `pool`
    pub fn denote(&self, pool: &[R]) -> R {
        let g = |i: &usize| pool[*i].clone();
        match self {
            Op::Empty => r_none(),
            Op::Eps => r_eps(),
            Op::AllChar => r_allchar(),
            Op::Full => r_all(),
            Op::SigmaPlus => r_cat(vec![r_allchar(), r_all()]),
            Op::Char(c) => r_range(*c, *c),
            Op::Range(a, b) | Op::CharSet(a, b) => r_range(*a, *b),
            Op::SmtRange(s1, s2) => {
                if s1.len() == 1 && s2.len() == 1 && s1[0] <= s2[0] {
                    r_range(s1[0], s2[0])
                } else {
                    r_none()
                }
            }
            Op::Str(s) => r_str(s),
            Op::Concat(i, j) => r_cat(vec![g(i), g(j)]),
            Op::ConcatList(v) => r_cat(v.iter().map(g).collect()),
            Op::Union(i, j) => r_or(vec![g(i), g(j)]),
            Op::UnionList(v) => r_or(v.iter().map(g).collect()),
            Op::Inter(i, j) => r_and(vec![g(i), g(j)]),
            Op::InterList(v) => r_and(v.iter().map(g).collect()),
            Op::Comp(i) => r_not(g(i)),
            Op::Diff(i, j) => r_and(vec![g(i), r_not(g(j))]),
            Op::DiffList(i, v) => {
                // left-associative re.diff: ((r \ a1) \ a2) ...
                let mut acc = g(i);
                for x in v {
                    acc = r_and(vec![acc, r_not(g(x))]);
                }
                acc
            }
            Op::Star(i) => r_loop(g(i), 0, None),
            Op::Plus(i) => r_cat(vec![g(i), r_loop(g(i), 0, None)]),
            Op::Opt(i) => r_or(vec![g(i), r_eps()]),
            Op::Exp(i, k) => r_loop(g(i), *k, Some(*k)),
            Op::SmtLoop(i, a, b) | Op::LoopFin(i, a, b) => r_loop(g(i), *a, Some(*b)),
            Op::LoopInf(i, a) => r_loop(g(i), *a, None),
            Op::Wide { n, b1, s1, b2, s2, extra, ord, .. } => r_or(
                wide_items(*n, *b1, *s1, *b2, *s2, *extra, *ord)
                    .into_iter()
                    .map(|it| match it {
                        Ok((f, l)) => r_cat(vec![r_range(f, f), r_range(l, l)]),
                        Err((x, y)) => r_range(x, y),
                    })
                    .collect(),
            ),
        }
    }

    /// apply through the methods of a manager
    pub fn apply_mgr(&self, m: &mut ReManager, pool: &[RegLan]) -> RegLan {
        let g = |i: &usize| pool[*i];
        match self {
            Op::Empty => m.empty(),
            Op::Eps => m.epsilon(),
            Op::AllChar => m.all_chars(),
            Op::Full => m.full(),
            Op::SigmaPlus => m.sigma_plus(),
            Op::Char(c) => m.char(*c),
            Op::Range(a, b) => m.range(*a, *b),
            Op::CharSet(a, b) => m.char_set(CharSet::range(*a, *b)),
            Op::SmtRange(s1, s2) => m.smt_range(&SmtString::from(&s1[..]), &SmtString::from(&s2[..])),
            Op::Str(s) => m.str(&SmtString::from(&s[..])),
            Op::Concat(i, j) => m.concat(g(i), g(j)),
            Op::ConcatList(v) => m.concat_list(v.iter().map(g)),
            Op::Union(i, j) => m.union(g(i), g(j)),
            Op::UnionList(v) => m.union_list(v.iter().map(g)),
            Op::Inter(i, j) => m.inter(g(i), g(j)),
            Op::InterList(v) => m.inter_list(v.iter().map(g)),
            Op::Comp(i) => m.complement(g(i)),
            Op::Diff(i, j) => m.diff(g(i), g(j)),
            Op::DiffList(i, v) => m.diff_list(g(i), v.iter().map(g)),
            Op::Star(i) => m.star(g(i)),
            Op::Plus(i) => m.plus(g(i)),
            Op::Opt(i) => m.opt(g(i)),
            Op::Exp(i, k) => m.exp(g(i), *k),
            Op::SmtLoop(i, a, b) => m.smt_loop(g(i), *a, *b),
            Op::LoopFin(i, a, b) => m.mk_loop(g(i), LoopRange::finite(*a, *b)),
            Op::LoopInf(i, a) => m.mk_loop(g(i), LoopRange::infinite(*a)),
            Op::Wide { n, b1, s1, b2, s2, extra, tree, ord } => {
                let mut items: Vec<RegLan> = Vec::new();
                for it in wide_items(*n, *b1, *s1, *b2, *s2, *extra, *ord) {
                    items.push(match it {
                        Ok((f, l)) => {
                            let (x, y) = (m.char(f), m.char(l));
                            m.concat(x, y)
                        }
                        Err((x, y)) => m.range(x, y),
                    });
                }
                if *tree {
                    balanced(&items, &mut |x, y| m.union(x, y))
                } else {
                    m.union_list(items.into_iter())
                }
            }
        }
    }

    /// apply through the SMT-LIB-named wrappers (thread-local manager)
    pub fn apply_wrap(&self, pool: &[RegLan]) -> RegLan {
        let g = |i: &usize| pool[*i];
        let s = |v: &[u32]| SmtString::from(v);
        match self {
            Op::Empty => w::re_none(),
            Op::Eps => w::str_to_re(&s(&[])),
            Op::AllChar => w::re_allchar(),
            Op::Full => w::re_all(),
            Op::SigmaPlus => w::re_plus(w::re_allchar()),
            Op::Char(c) => w::str_to_re(&s(&[*c])),
            Op::Range(a, b) | Op::CharSet(a, b) => w::re_range(&s(&[*a]), &s(&[*b])),
            Op::SmtRange(s1, s2) => w::re_range(&s(s1), &s(s2)),
            Op::Str(x) => w::str_to_re(&s(x)),
            Op::Concat(i, j) => w::re_concat(g(i), g(j)),
            // the list wrappers get LAZY iterators whose items are produced by other wrapper calls, as in
            // re_union_list(words.iter().map(|w| str_to_re(w)))
            Op::ConcatList(v) => w::re_concat_list(v.iter().map(|i| w::re_concat(g(i), w::str_to_re(&s(&[]))))),
            Op::Union(i, j) => w::re_union(g(i), g(j)),
            Op::UnionList(v) => w::re_union_list(v.iter().map(|i| w::re_union(g(i), w::re_none()))),
            Op::Inter(i, j) => w::re_inter(g(i), g(j)),
            Op::InterList(v) => w::re_inter_list(v.iter().map(|i| w::re_inter(g(i), w::re_all()))),
            Op::Comp(i) => w::re_comp(g(i)),
            Op::Diff(i, j) => w::re_diff(g(i), g(j)),
            Op::DiffList(i, v) => w::re_diff_list(g(i), v.iter().map(|i| w::re_diff(g(i), w::re_none()))),
            Op::Star(i) => w::re_star(g(i)),
            Op::Plus(i) => w::re_plus(g(i)),
            Op::Opt(i) => w::re_opt(g(i)),
            Op::Exp(i, k) => w::re_power(g(i), *k),
            Op::SmtLoop(i, a, b) | Op::LoopFin(i, a, b) => w::re_loop(g(i), *a, *b),
            Op::LoopInf(i, a) => w::re_concat(w::re_power(g(i), *a), w::re_star(g(i))),
            Op::Wide { n, b1, s1, b2, s2, extra, tree, ord } => {
                let lazy = wide_items(*n, *b1, *s1, *b2, *s2, *extra, *ord).into_iter().map(|it| match it {
                    Ok((f, l)) => w::str_to_re(&s(&[f, l])),
                    Err((x, y)) => w::re_range(&s(&[x]), &s(&[y])),
                });
                if *tree {
                    let items: Vec<RegLan> = lazy.collect();
                    balanced(&items, &mut |x, y| w::re_union(x, y))
                } else {
                    // the operands are built while the list wrapper consumes its iterator
                    w::re_union_list(lazy)
                }
            }
        }
    }
}

#[derive(Clone, Debug)]
pub struct Program {
    pub points: Vec<u32>,
    pub ops: Vec<Op>,
}

impl Program {
    pub fn to_text(&self) -> String {
        let mut o = String::new();
        let _ = write!(o, "points");
        for p in &self.points {
            let _ = write!(o, " {:x}", p);
        }
        o.push('\n');
        for (i, op) in self.ops.iter().enumerate() {
            let _ = writeln!(o, "{}", op.to_text());
            let _ = i;
        }
        o
    }
    pub fn from_text(t: &str) -> Result<Program, String> {
        let mut points = Vec::new();
        let mut ops = Vec::new();
        for line in t.lines() {
            let line = line.trim();
            if line.is_empty() || line.starts_with('#') {
                continue;
            }
            if let Some(rest) = line.strip_prefix("points") {
                for t in rest.split_whitespace() {
                    points.push(u32::from_str_radix(t, 16).map_err(|e| e.to_string())?);
                }
            } else {
                ops.push(Op::from_text(line)?);
            }
        }
        // sanity: operand indices
        for (i, op) in ops.iter().enumerate() {
            for j in op.operands() {
                if j >= i {
                    return Err(format!("op {} refers to later result {}", i, j));
                }
            }
        }
        Ok(Program { points, ops })
    }

    /// some loop bound is so large that derivative closures of the terms are out of reach
    pub fn has_huge_bound(&self) -> bool {
        self.ops.iter().any(|op| match op {
            Op::Exp(_, k) | Op::LoopInf(_, k) => *k > (1 << 20),
            Op::SmtLoop(_, a, b) | Op::LoopFin(_, a, b) => *a > (1 << 20) || *b > (1 << 20),
            _ => false,
        })
    }

    /// the same program over a shifted alphabet: every code point in [0x41, 0x79] is replaced by its successor
    /// (same shape, same ids in a fresh manager, different languages)
    pub fn twin(&self) -> Program {
        let f = |c: u32| if (0x41..=0x79).contains(&c) { c + 1 } else { c };
        let ops = self
            .ops
            .iter()
            .map(|op| match op {
                Op::Char(c) => Op::Char(f(*c)),
                Op::Range(a, b) => Op::Range(f(*a), f(*b)),
                Op::CharSet(a, b) => Op::CharSet(f(*a), f(*b)),
                Op::SmtRange(a, b) => Op::SmtRange(a.iter().map(|&c| f(c)).collect(), b.iter().map(|&c| f(c)).collect()),
                Op::Str(s) => Op::Str(s.iter().map(|&c| f(c)).collect()),
                other => other.clone(),
            })
            .collect();
        Program { points: self.points.iter().map(|&c| f(c)).collect(), ops }
    }

    /// all characters mentioned (points plus op literals)
    pub fn all_points(&self) -> Vec<u32> {
        let mut v = self.points.clone();
        for op in &self.ops {
            match op {
                Op::Char(c) => v.push(*c),
                Op::Range(a, b) | Op::CharSet(a, b) => {
                    v.push(*a);
                    v.push(*b)
                }
                Op::SmtRange(a, b) => {
                    v.extend_from_slice(a);
                    v.extend_from_slice(b)
                }
                Op::Str(s) => v.extend_from_slice(s),
                Op::Wide { n, b1, s1, b2, s2, extra, ord, .. } => {
                    for it in wide_items(*n, *b1, *s1, *b2, *s2, *extra, *ord) {
                        match it {
                            Ok((f, l)) => {
                                v.push(f);
                                v.push(l)
                            }
                            Err((x, y)) => {
                                v.push(x);
                                v.push(y)
                            }
                        }
                    }
                }
                _ => {}
            }
        }
        v.sort_unstable();
        v.dedup();
        v
    }

    /// sub-program needed to compute result k (indices renumbered); for small replay files
    pub fn slice(&self, k: usize) -> Program {
        let mut need = vec![false; self.ops.len()];
        need[k] = true;
        for i in (0..=k).rev() {
            if need[i] {
                for j in self.ops[i].operands() {
                    need[j] = true;
                }
            }
        }
        let mut map = vec![usize::MAX; self.ops.len()];
        let mut ops = Vec::new();
        for i in 0..=k {
            if need[i] {
                map[i] = ops.len();
                let mut op = self.ops[i].clone();
                remap(&mut op, &map);
                ops.push(op);
            }
        }
        Program { points: self.points.clone(), ops }
    }
}

fn remap(op: &mut Op, map: &[usize]) {
    let f = |i: &mut usize| *i = map[*i];
    match op {
        Op::Concat(i, j) | Op::Union(i, j) | Op::Inter(i, j) | Op::Diff(i, j) => {
            f(i);
            f(j)
        }
        Op::ConcatList(v) | Op::UnionList(v) | Op::InterList(v) => v.iter_mut().for_each(f),
        Op::DiffList(i, v) => {
            f(i);
            v.iter_mut().for_each(f)
        }
        Op::Comp(i) | Op::Star(i) | Op::Plus(i) | Op::Opt(i) | Op::Exp(i, _) | Op::SmtLoop(i, _, _) | Op::LoopFin(i, _, _) | Op::LoopInf(i, _) => f(i),
        _ => {}
    }
}

// ------------------------------------------------------------------ generation

#[derive(Clone, Copy, Debug, PartialEq)]
pub enum Profile {
    Boundary,
    Loops,
    Boolean,
    Patterns,
    Mixed,
    Small,
}

impl Profile {
    pub fn name(&self) -> &'static str {
        match self {
            Profile::Boundary => "boundary",
            Profile::Loops => "loops",
            Profile::Boolean => "boolean",
            Profile::Patterns => "patterns",
            Profile::Mixed => "mixed",
            Profile::Small => "small",
        }
    }
    pub fn pick(rng: &mut Rng, weights: &[(Profile, u32)]) -> Profile {
        let w: Vec<u32> = weights.iter().map(|x| x.1).collect();
        weights[rng.weighted(&w)].0
    }
}

const POINT_POOL: [u32; 26] = [
    0, 1, 2, 0x2f, 0x30, 0x39, 0x41, 0x5a, 0x61, 0x62, 0x63, 0x64, 0x7a, 0x7f, 0x80, 0xff, 0xd7ff, 0xd800, 0xdfff, 0xe000, 0xfffd, 0xffff, 0x10000, 0x2fffd, 0x2fffe, 0x2ffff,
];

pub fn gen_points(rng: &mut Rng, prof: Profile) -> Vec<u32> {
    let mut v: Vec<u32> = match prof {
        Profile::Boundary => vec![0, 1, 0x61, 0x62, 0x63, 0x64, 0x2fffe, 0x2ffff],
        Profile::Small => vec![0x61, 0x62, 0x63],
        _ => {
            let n = 3 + rng.usize(5);
            let mut v = vec![0x61, 0x62];
            // one program in eight: tiny code points, which coincide with term ids, class indices and small counts
            let tiny = rng.chance(1, 8);
            for _ in 0..n {
                if tiny {
                    v.push(3 + rng.below(40) as u32);
                } else if rng.chance(1, 6) {
                    v.push(rng.below(0x30000) as u32);
                } else {
                    v.push(*rng.pick(&POINT_POOL));
                }
            }
            v
        }
    };
    v.sort_unstable();
    v.dedup();
    v
}

#[derive(Clone, Copy, PartialEq, Debug)]
enum Kind {
    Atom,    // char / range
    Sigma,   // all chars
    Full,    // sigma star
    Str,     // string literal
    LoopAtom, // loop over an atom or sigma
    Pattern, // concatenation of the above
    Other,
    /// a union of hundreds of words (or one operator on top of it): never picked as an operand by later steps,
    /// because derivatives of further operators over it build unions of tens of thousands of operands, on which the
    /// crate's own constructors are quadratic (minutes per call)
    Wide,
}

pub struct Gen<'a> {
    rng: &'a mut Rng,
    prof: Profile,
    points: Vec<u32>,
    kinds: Vec<Kind>,
    pub ops: Vec<Op>,
}

impl<'a> Gen<'a> {
    pub fn new(rng: &'a mut Rng, prof: Profile) -> Gen<'a> {
        let points = gen_points(rng, prof);
        Gen { rng, prof, points, kinds: Vec::new(), ops: Vec::new() }
    }

    fn n(&self) -> usize {
        self.ops.len()
    }

    fn push(&mut self, op: Op, k: Kind) -> usize {
        self.ops.push(op);
        self.kinds.push(k);
        self.ops.len() - 1
    }

    fn pick(&mut self) -> usize {
        let n = self.n();
        for _ in 0..8 {
            let i = if self.rng.chance(1, 2) { n - 1 - self.rng.usize(n.min(4)) } else { self.rng.usize(n) };
            if self.kinds[i] != Kind::Wide {
                return i;
            }
        }
        // (the first three results of a program are atoms)
        self.rng.usize(3.min(n))
    }

    fn pick_kind(&mut self, ok: &[Kind]) -> Option<usize> {
        let c: Vec<usize> = (0..self.n()).filter(|&i| ok.contains(&self.kinds[i])).collect();
        if c.is_empty() {
            None
        } else {
            Some(*self.rng.pick(&c))
        }
    }

    fn picks(&mut self, lo: usize, hi: usize) -> Vec<usize> {
        let k = lo + self.rng.usize(hi - lo + 1);
        (0..k).map(|_| self.pick()).collect()
    }

    fn point(&mut self) -> u32 {
        *self.rng.pick(&self.points)
    }

    fn gen_range(&mut self) -> (u32, u32) {
        let a = self.point();
        let b = self.point();
        (a.min(b), a.max(b))
    }

    fn gen_word(&mut self, maxlen: usize) -> Vec<u32> {
        let n = self.rng.usize(maxlen + 1);
        // few distinct letters so that words overlap
        let letters: Vec<u32> = (0..2).map(|_| self.point()).collect();
        (0..n).map(|_| if self.rng.chance(3, 4) { *self.rng.pick(&letters) } else { self.point() }).collect()
    }

    fn gen_atom(&mut self) -> usize {
        let r = self.rng.below(10);
        match r {
            0..=2 => {
                let c = self.point();
                self.push(Op::Char(c), Kind::Atom)
            }
            3..=5 => {
                let (a, b) = self.gen_range();
                self.push(Op::Range(a, b), Kind::Atom)
            }
            6 => {
                let (a, b) = self.gen_range();
                self.push(Op::CharSet(a, b), Kind::Atom)
            }
            7 => {
                // SMT range: sometimes ill-formed (empty language)
                let t = self.rng.below(6);
                let (a, b) = self.gen_range();
                let op = match t {
                    0 => Op::SmtRange(vec![b], vec![a]),
                    1 => Op::SmtRange(vec![a, b], vec![b]),
                    2 => Op::SmtRange(vec![], vec![b]),
                    _ => Op::SmtRange(vec![a], vec![b]),
                };
                let k = if t >= 3 || (t == 0 && a == b) { Kind::Atom } else { Kind::Other };
                self.push(op, k)
            }
            8 => {
                let w = self.gen_word(4);
                self.push(Op::Str(w), Kind::Str)
            }
            _ => {
                let t = self.rng.below(6);
                match t {
                    0 => self.push(Op::Empty, Kind::Other),
                    1 => self.push(Op::Eps, Kind::Other),
                    2 | 3 => self.push(Op::AllChar, Kind::Sigma),
                    4 => self.push(Op::Full, Kind::Full),
                    _ => self.push(Op::SigmaPlus, Kind::LoopAtom),
                }
            }
        }
    }

    fn gen_loop(&mut self, body: usize) -> usize {
        let small = matches!(self.kinds[body], Kind::Atom | Kind::Sigma);
        // the small profile (bounded-progress restatement of termination in C19) never uses large bounds
        let big = small && self.prof != Profile::Small && self.rng.chance(1, 12);
        let maxb: u64 = match self.prof {
            Profile::Small => 3,
            _ => 4,
        };
        // (one in six of the big ones: any bound up to 300, e.g. 100 or 128, not only what is next to a power of two)
        let wide_range = big && self.rng.chance(1, 6);
        let lo = if wide_range { self.rng.below(300) as u32 } else if big { self.rng.below(30) as u32 } else { self.rng.below(maxb) as u32 };
        let d = if wide_range { self.rng.below(40) as u32 } else if big { self.rng.below(12) as u32 } else { self.rng.below(maxb) as u32 };
        let k = if small { Kind::LoopAtom } else { Kind::Other };
        let op = match self.rng.below(12) {
            0 | 1 => Op::Star(body),
            2 => Op::Plus(body),
            3 => Op::Opt(body),
            4 | 5 => Op::Exp(body, lo),
            6 | 7 => Op::SmtLoop(body, lo, lo + d),
            8 => {
                // ill-formed SMT loop: lo > hi denotes the empty language
                if self.rng.chance(1, 3) {
                    Op::SmtLoop(body, lo + d + 1, lo)
                } else {
                    Op::SmtLoop(body, 0, d)
                }
            }
            9 => Op::LoopFin(body, lo, lo + d),
            _ => Op::LoopInf(body, lo),
        };
        self.push(op, k)
    }

    fn gen_pattern(&mut self) -> usize {
        // concatenation of atoms, sigma, full, strings, loops over atoms
        let k = 2 + self.rng.usize(4);
        let mut items = Vec::new();
        for _ in 0..k {
            let kinds: &[Kind] = match self.rng.below(8) {
                0..=2 => &[Kind::Atom],
                3 => &[Kind::Sigma],
                4 | 5 => &[Kind::Full],
                6 => &[Kind::Str, Kind::Atom],
                _ => &[Kind::LoopAtom],
            };
            let it = match self.pick_kind(kinds) {
                Some(i) => i,
                None => self.gen_atom(),
            };
            items.push(it);
        }
        if items.len() == 2 && self.rng.chance(1, 2) {
            self.push(Op::Concat(items[0], items[1]), Kind::Pattern)
        } else {
            self.push(Op::ConcatList(items), Kind::Pattern)
        }
    }

    /// from an existing pattern (list of items) derive a more specific one:
    /// ranges shrink, Full is replaced by arbitrary items
    fn gen_specialized(&mut self, pat: usize) -> usize {
        let items = match &self.ops[pat] {
            Op::ConcatList(v) => v.clone(),
            Op::Concat(a, b) => vec![*a, *b],
            _ => return self.gen_pattern(),
        };
        let mut out = Vec::new();
        for it in items {
            match (self.kinds[it], self.ops[it].clone()) {
                (Kind::Full, _) => {
                    let n = self.rng.usize(3);
                    for _ in 0..n {
                        let x = match self.rng.below(4) {
                            0 => self.pick(),
                            _ => match self.pick_kind(&[Kind::Atom, Kind::Str, Kind::LoopAtom, Kind::Sigma, Kind::Full]) {
                                Some(i) => i,
                                None => self.gen_atom(),
                            },
                        };
                        out.push(x);
                    }
                    if self.rng.chance(1, 3) {
                        out.push(it);
                    }
                }
                (Kind::Atom, Op::Range(a, b)) | (Kind::Atom, Op::CharSet(a, b)) => {
                    // sub-range with end points among the known points
                    let inside: Vec<u32> = self.points.iter().copied().filter(|&p| a <= p && p <= b).collect();
                    if inside.is_empty() || self.rng.chance(1, 4) {
                        out.push(it);
                    } else {
                        let x = *self.rng.pick(&inside);
                        let y = *self.rng.pick(&inside);
                        let i = self.push(Op::Range(x.min(y), x.max(y)), Kind::Atom);
                        out.push(i);
                    }
                }
                (Kind::Sigma, _) => {
                    if self.rng.chance(1, 2) {
                        let c = self.point();
                        let i = self.push(Op::Char(c), Kind::Atom);
                        out.push(i);
                    } else {
                        out.push(it);
                    }
                }
                _ => out.push(it),
            }
        }
        if out.is_empty() {
            out.push(self.n() - 1);
        }
        self.push(Op::ConcatList(out), Kind::Pattern)
    }

    /// one word as a literal and as a concatenation of runs (c^k pieces), then combined by a boolean operator
    fn gen_constant_two_ways(&mut self) {
        let l1 = self.point();
        let l2 = self.point();
        let len = 2 + self.rng.usize(4);
        let mut w: Vec<u32> = Vec::new();
        while w.len() < len {
            let c = if self.rng.chance(1, 2) { l1 } else { l2 };
            let run = 1 + self.rng.usize(3);
            for _ in 0..run {
                if w.len() < len {
                    w.push(c);
                }
            }
        }
        let lit = self.push(Op::Str(w.clone()), Kind::Str);
        // chunks: maximal runs as powers, or the word cut in two literals, or a repeated half
        let mut pieces: Vec<usize> = Vec::new();
        let mut i = 0;
        while i < w.len() {
            let mut j = i;
            while j < w.len() && w[j] == w[i] {
                j += 1;
            }
            let c = self.push(Op::Char(w[i]), Kind::Atom);
            if j - i > 1 {
                let p = self.push(Op::Exp(c, (j - i) as u32), Kind::LoopAtom);
                pieces.push(p);
            } else {
                pieces.push(c);
            }
            i = j;
        }
        let chunked = if pieces.len() == 1 { pieces[0] } else { self.push(Op::ConcatList(pieces), Kind::Pattern) };
        let op = match self.rng.below(4) {
            0 => Op::Inter(lit, chunked),
            1 => Op::Union(chunked, lit),
            2 => Op::Diff(lit, chunked),
            _ => Op::Inter(chunked, lit),
        };
        self.push(op, Kind::Other);
        // two long literals that render to the same Unicode text: surrogates vs U+FFFD at the same positions
        if self.rng.chance(1, 3) {
            let n = 8 + self.rng.usize(5);
            let w1: Vec<u32> = (0..n).map(|i| if i % 3 == 1 { *self.rng.pick(&[0xD800u32, 0xDBFF, 0xDC00, 0xDFFF]) } else if i % 3 == 2 { 0xFFFD } else { l1 }).collect();
            let w2: Vec<u32> = w1.iter().map(|&c| if (0xD800..=0xDFFF).contains(&c) { 0xFFFD } else { c }).collect();
            let a = self.push(Op::Str(w1), Kind::Str);
            let b = self.push(Op::Str(w2), Kind::Str);
            let op = match self.rng.below(3) {
                0 => Op::Diff(a, b),
                1 => Op::Inter(b, a),
                _ => Op::Union(a, b),
            };
            self.push(op, Kind::Other);
        }
        // and a word repeated as a unit
        if self.rng.chance(1, 2) && w.len() >= 2 {
            let half = self.push(Op::Str(w[..2].to_vec()), Kind::Str);
            let k = 2 + self.rng.below(2) as u32;
            let rep_unit = self.push(Op::Exp(half, k), Kind::Other);
            let mut full: Vec<u32> = Vec::new();
            for _ in 0..k {
                full.extend_from_slice(&w[..2]);
            }
            let lit2 = self.push(Op::Str(full), Kind::Str);
            let op2 = if self.rng.chance(1, 2) { Op::Inter(rep_unit, lit2) } else { Op::Diff(lit2, rep_unit) };
            self.push(op2, Kind::Other);
        }
    }

    /// two or three loops over ONE body (often nullable or ambiguously splittable) with nested, adjacent, gapped,
    /// point or unbounded ranges, combined by union / intersection / difference / concatenation, and once more
    /// behind a common prefix so that the combination also arises inside a derivative
    fn gen_loops_same_body(&mut self) {
        let body = match self.rng.below(4) {
            0 => self.pick(),
            1 => {
                // (eps + x) or (x + xx): a word does not determine its repetition count
                let x = match self.pick_kind(&[Kind::Atom]) {
                    Some(i) => i,
                    None => self.gen_atom(),
                };
                if self.rng.chance(1, 2) {
                    self.push(Op::Opt(x), Kind::Other)
                } else {
                    let xx = self.push(Op::Concat(x, x), Kind::Other);
                    self.push(Op::Union(x, xx), Kind::Other)
                }
            }
            2 => {
                let i = self.pick();
                self.push(Op::Comp(i), Kind::Other)
            }
            _ => match self.pick_kind(&[Kind::Atom, Kind::Str, Kind::Sigma]) {
                Some(i) => i,
                None => self.gen_atom(),
            },
        };
        if self.rng.chance(1, 20) {
            // (rare: every query on such a term runs into the derivative budget, ~0.4 s each)
            // the largest finite upper bound next to the unbounded loop with the same lower bound, in both orders
            let lo = self.rng.below(3) as u32;
            let fin = if self.rng.chance(1, 2) { Op::SmtLoop(body, lo, u32::MAX) } else { Op::LoopFin(body, lo, u32::MAX) };
            let inf = match lo {
                0 if self.rng.chance(1, 2) => Op::Star(body),
                1 if self.rng.chance(1, 2) => Op::Plus(body),
                _ => Op::LoopInf(body, lo),
            };
            if self.rng.chance(1, 2) {
                self.push(fin, Kind::Other);
                self.push(inf, Kind::Other);
            } else {
                self.push(inf, Kind::Other);
                self.push(fin, Kind::Other);
            }
            return;
        }
        let mk = |g: &mut Self| -> usize {
            let lo = g.rng.below(4) as u32;
            let op = match g.rng.below(7) {
                0 => Op::Star(body),
                1 => Op::Plus(body),
                2 => Op::Exp(body, lo.max(1) + 1),
                3 => Op::LoopInf(body, lo + 1),
                4 => Op::Opt(body),
                _ => Op::SmtLoop(body, lo, lo + g.rng.below(3) as u32),
            };
            g.push(op, Kind::Other)
        };
        let l1 = mk(self);
        let l2 = mk(self);
        let comb = match self.rng.below(5) {
            0 => Op::Union(l1, l2),
            1 | 2 => Op::Inter(l1, l2),
            3 => Op::Diff(l1, l2),
            _ => Op::Concat(l1, l2),
        };
        let c = self.push(comb, Kind::Other);
        if self.rng.chance(1, 2) {
            let l3 = mk(self);
            let op = if self.rng.chance(1, 2) { Op::UnionList(vec![l3, l1, l2]) } else { Op::InterList(vec![l1, l3, l2]) };
            self.push(op, Kind::Other);
        }
        if self.rng.chance(1, 2) {
            // c.l1 + c.l2: the union of the two loops appears only after taking the derivative
            let ch = self.point();
            let p = self.push(Op::Char(ch), Kind::Atom);
            let a = self.push(Op::Concat(p, l1), Kind::Other);
            let b = self.push(Op::Concat(p, l2), Kind::Other);
            self.push(Op::Union(a, b), Kind::Other);
        }
        let _ = c;
    }

    /// a union / intersection-of-complements / concatenation with exactly N operands, N around a power of two
    /// a wide union as ONE constructor step (operand counts around 2^6, 2^7, 2^8), then one operator on top
    fn gen_wide_macro(&mut self) {
        let n = if self.rng.chance(1, 2) { *self.rng.pick(&[65u32, 66, 100, 129, 255, 256, 257, 300]) } else { 5 + self.rng.below(296) as u32 };
        let s1 = 1 + self.rng.below(2) as u32;
        let b1 = match self.rng.below(4) {
            0 => 0,
            1 => 0x1000 + self.rng.below(0x100) as u32,
            2 => MAXC - s1 * (n - 1),
            _ => 1,
        };
        let s2 = self.rng.below(3) as u32;
        // last letters apart from the first letters (overlapping letter sets make star/concat on top of the union
        // expensive for the crate and the reference alike, without adding a size threshold)
        let b2 = 0x5000 + self.rng.below(2) as u32 * 0x8000;
        let op = Op::Wide { n, b1, s1, b2, s2, extra: self.rng.chance(2, 3), tree: self.rng.chance(1, 4), ord: self.rng.below(3) as u8 };
        let u = self.push(op, Kind::Wide);
        match self.rng.below(5) {
            0 => {
                self.push(Op::Star(u), Kind::Wide);
            }
            1 => {
                self.push(Op::Comp(u), Kind::Wide);
            }
            2 => {
                let j = self.pick();
                self.push(Op::Inter(u, j), Kind::Wide);
            }
            _ => {}
        }
    }

    /// two operands for a binary constructor: one time in twelve the SAME result twice, one time in twelve a result
    /// and its complement (x op x, x op not x)
    fn pick2(&mut self) -> (usize, usize) {
        let i = self.pick();
        match self.rng.below(12) {
            0 => (i, i),
            1 => {
                let c = self.push(Op::Comp(i), Kind::Other);
                if self.rng.chance(1, 2) {
                    (i, c)
                } else {
                    (c, i)
                }
            }
            _ => (i, self.pick()),
        }
    }

    fn gen_wide_list(&mut self) {
        let n = *self.rng.pick(&[7usize, 8, 9, 15, 16, 17, 31, 32, 33, 63, 64, 65]);
        let base = 0x100 + self.rng.below(0x80) as u32 * 0x100;
        let mut items = Vec::new();
        for i in 0..n {
            let c = base + 2 * i as u32;
            let it = if self.rng.chance(1, 5) { self.push(Op::Range(c, c + 1), Kind::Atom) } else { self.push(Op::Char(c), Kind::Atom) };
            items.push(it);
        }
        if self.rng.chance(1, 3) {
            let d = items[self.rng.usize(items.len())];
            items.push(d); // a duplicate operand
        }
        self.rng.shuffle(&mut items);
        match self.rng.below(4) {
            0 | 1 => {
                let u = self.push(Op::UnionList(items), Kind::Other);
                if self.rng.chance(1, 2) {
                    self.push(Op::Star(u), Kind::Other);
                }
            }
            2 => {
                let comps: Vec<usize> = items.iter().map(|&i| self.push(Op::Comp(i), Kind::Other)).collect();
                self.push(Op::InterList(comps), Kind::Other);
            }
            _ => {
                self.push(Op::ConcatList(items), Kind::Pattern);
            }
        }
    }

    fn step(&mut self) {
        if self.n() >= 3 && self.prof != Profile::Small && self.rng.chance(1, 40) {
            self.gen_constant_two_ways();
            return;
        }
        if self.n() >= 3 && self.prof != Profile::Small && self.rng.chance(1, 30) {
            self.gen_loops_same_body();
            return;
        }
        if self.n() >= 3 && self.prof != Profile::Small && self.prof != Profile::Patterns && self.rng.chance(1, 150) {
            self.gen_wide_list();
            return;
        }
        if self.n() >= 3 && self.prof != Profile::Small && self.rng.chance(1, 250) {
            self.gen_wide_macro();
            return;
        }
        if self.n() < 3 {
            self.gen_atom();
            return;
        }
        // weights per profile: atom, concat, union, inter, comp, diff, loop, pattern, specialize, lists
        let w: [u32; 10] = match self.prof {
            Profile::Boundary => [25, 15, 12, 12, 8, 6, 10, 4, 2, 6],
            Profile::Loops => [12, 18, 8, 5, 5, 3, 38, 3, 2, 6],
            Profile::Boolean => [14, 12, 14, 20, 16, 12, 6, 2, 1, 3],
            Profile::Patterns => [12, 6, 14, 6, 8, 3, 7, 24, 16, 4],
            Profile::Mixed => [15, 16, 12, 10, 9, 6, 14, 8, 4, 6],
            Profile::Small => [20, 20, 14, 10, 10, 5, 18, 0, 0, 3],
        };
        match self.rng.weighted(&w) {
            0 => {
                self.gen_atom();
            }
            1 => {
                let (i, j) = self.pick2();
                self.push(Op::Concat(i, j), Kind::Other);
            }
            2 => {
                let (i, j) = self.pick2();
                self.push(Op::Union(i, j), Kind::Other);
            }
            3 => {
                let (i, j) = self.pick2();
                self.push(Op::Inter(i, j), Kind::Other);
            }
            4 => {
                let i = self.pick();
                self.push(Op::Comp(i), Kind::Other);
            }
            5 => {
                let (i, j) = self.pick2();
                self.push(Op::Diff(i, j), Kind::Other);
            }
            6 => {
                let b = self.pick();
                self.gen_loop(b);
            }
            7 => {
                self.gen_pattern();
            }
            8 => {
                let p = match self.pick_kind(&[Kind::Pattern]) {
                    Some(p) => p,
                    None => self.gen_pattern(),
                };
                self.gen_specialized(p);
            }
            _ => {
                let op = match self.rng.below(4) {
                    0 => Op::ConcatList(self.picks(0, 4)),
                    1 => Op::UnionList(self.picks(0, 4)),
                    2 => Op::InterList(self.picks(0, 4)),
                    _ => {
                        let i = self.pick();
                        Op::DiffList(i, self.picks(0, 3))
                    }
                };
                self.push(op, Kind::Other);
            }
        }
    }

    pub fn finish(self) -> Program {
        Program { points: self.points, ops: self.ops }
    }
}

pub fn gen_program(rng: &mut Rng, prof: Profile, steps: usize) -> Program {
    let mut g = Gen::new(rng, prof);
    while g.n() < steps {
        g.step();
    }
    g.finish()
}

/// random words over the program's points, for membership probes
pub fn gen_word(rng: &mut Rng, letters: &[u32], maxlen: usize) -> Vec<u32> {
    let n = rng.usize(maxlen + 1);
    (0..n).map(|_| *rng.pick(letters)).collect()
}

// ------------------------------------------------------------------ exhaustive tiny programs

const TA: u32 = 0x61;
const TB: u32 = 0x63;

fn tiny_atoms() -> Vec<Op> {
    vec![
        Op::Empty,
        Op::Eps,
        Op::AllChar,
        Op::Full,
        Op::SigmaPlus,
        Op::Char(TA),
        Op::Char(TB),
        Op::Range(TA, TB),
        Op::Range(TB, MAXC),
        Op::Range(0, TA),
        Op::Str(vec![TA, TB]),
    ]
}

fn tiny_unary(i: usize) -> Vec<Op> {
    vec![
        Op::Comp(i),
        Op::Star(i),
        Op::Plus(i),
        Op::Opt(i),
        Op::Exp(i, 2),
        Op::SmtLoop(i, 0, 2),
        Op::SmtLoop(i, 1, 2),
        Op::SmtLoop(i, 2, 1),
        Op::LoopInf(i, 2),
    ]
}

fn tiny_binary(i: usize, j: usize) -> Vec<Op> {
    vec![Op::Concat(i, j), Op::Union(i, j), Op::Inter(i, j), Op::Diff(i, j)]
}

/// all level-2 terms as op sequences (the last op is the term)
fn tiny_level2() -> Vec<Vec<Op>> {
    let atoms = tiny_atoms();
    let mut out = Vec::new();
    for a in &atoms {
        for u in tiny_unary(0) {
            out.push(vec![a.clone(), u]);
        }
    }
    for a in &atoms {
        for b in &atoms {
            for op in tiny_binary(0, 1) {
                out.push(vec![a.clone(), b.clone(), op]);
            }
        }
    }
    out
}

fn shift_ops(ops: &[Op], by: usize) -> Vec<Op> {
    let map: Vec<usize> = (0..ops.len()).map(|i| i + by).collect();
    ops.iter()
        .map(|op| {
            let mut o = op.clone();
            remap(&mut o, &map);
            o
        })
        .collect()
}

/// Enumeration of ALL construction programs with at most two nested non-atomic operators over an 11-atom
/// vocabulary where the outer operator is unary or has an atomic operand (index space `tiny_count()`), plus
/// sampled programs whose outer operator joins two level-2 terms. Program `idx` is built on demand.
pub fn tiny_count() -> usize {
    let l2 = tiny_level2().len();
    let atoms = tiny_atoms().len();
    // level 1 (atoms), level 2, unary over level 2, binary (level2, atom) and (atom, level2)
    atoms + l2 + l2 * 9 + 2 * l2 * atoms * 4
}

pub fn tiny_program(idx: usize) -> Program {
    let atoms = tiny_atoms();
    let l2 = tiny_level2();
    let (na, nl) = (atoms.len(), l2.len());
    let points = vec![0, TA, TB, MAXC];
    let mut i = idx;
    if i < na {
        return Program { points, ops: vec![atoms[i].clone()] };
    }
    i -= na;
    if i < nl {
        return Program { points, ops: l2[i].clone() };
    }
    i -= nl;
    if i < nl * 9 {
        let mut ops = l2[i / 9].clone();
        let last = ops.len() - 1;
        ops.push(tiny_unary(last)[i % 9].clone());
        return Program { points, ops };
    }
    i -= nl * 9;
    let per = na * 4;
    if i < nl * per {
        // binary(level2, atom)
        let mut ops = l2[i / per].clone();
        let x = ops.len() - 1;
        let r = i % per;
        ops.push(atoms[r / 4].clone());
        let y = ops.len() - 1;
        ops.push(tiny_binary(x, y)[r % 4].clone());
        return Program { points, ops };
    }
    i -= nl * per;
    // binary(atom, level2)
    let mut ops = l2[(i / per) % nl].clone();
    let y = ops.len() - 1;
    let r = i % per;
    ops.push(atoms[r / 4].clone());
    let x = ops.len() - 1;
    ops.push(tiny_binary(x, y)[r % 4].clone());
    Program { points, ops }
}

/// sampled program joining two level-2 terms with a binary operator (optionally wrapped in a unary one)
pub fn tiny_pair_program(rng: &mut Rng) -> Program {
    let l2 = tiny_level2();
    let a = rng.pick(&l2).clone();
    let b = rng.pick(&l2).clone();
    let mut ops = a.clone();
    let x = ops.len() - 1;
    ops.extend(shift_ops(&b, a.len()));
    let y = ops.len() - 1;
    let k = rng.usize(4);
    ops.push(tiny_binary(x, y)[k].clone());
    if rng.chance(1, 3) {
        let z = ops.len() - 1;
        let u = rng.usize(9);
        ops.push(tiny_unary(z)[u].clone());
    }
    Program { points: vec![0, TA, TB, MAXC], ops }
}

// ------------------------------------------------------------------ simple patterns (concatenations of ranges and loops over ranges)

pub const SIMPLE_ITEMS: usize = 12;

/// item k of the simple-pattern vocabulary as ops appended to `ops`; returns the index of the item's result
fn simple_item(ops: &mut Vec<Op>, k: usize) -> usize {
    let (a, b) = (0x61u32, 0x62u32);
    let atom = |ops: &mut Vec<Op>, which: usize| -> usize {
        ops.push(match which {
            0 => Op::Char(a),
            1 => Op::Char(b),
            _ => Op::Range(a, b),
        });
        ops.len() - 1
    };
    match k {
        0..=2 => atom(ops, k),
        3..=5 => {
            let x = atom(ops, k - 3);
            ops.push(Op::Star(x));
            ops.len() - 1
        }
        6..=8 => {
            let x = atom(ops, k - 6);
            ops.push(Op::Opt(x));
            ops.len() - 1
        }
        9 | 10 => {
            let x = atom(ops, if k == 9 { 0 } else { 2 });
            ops.push(Op::Plus(x));
            ops.len() - 1
        }
        _ => {
            let x = atom(ops, 1);
            ops.push(Op::SmtLoop(x, 1, 2));
            ops.len() - 1
        }
    }
}

/// the concatenation of the given vocabulary items, as a program whose last op is the pattern
pub fn simple_pattern_program(items: &[usize]) -> Program {
    let mut ops = Vec::new();
    let idx: Vec<usize> = items.iter().map(|&k| simple_item(&mut ops, k % SIMPLE_ITEMS)).collect();
    ops.push(Op::ConcatList(idx));
    Program { points: vec![0x61, 0x62], ops }
}

/// Short programs around loops whose upper bound is (next to) u32::MAX: the same body looped twice, then
/// concatenations, unions and outer loops of those loops (derivatives of such terms add and multiply the bounds)
pub fn max_loop_program(rng: &mut Rng) -> Program {
    if rng.chance(1, 3) {
        return nested_loop_program(rng);
    }
    let mut ops: Vec<Op> = Vec::new();
    let body = match rng.below(3) {
        0 => {
            ops.push(Op::Char(0x61));
            0
        }
        1 => {
            ops.push(Op::Range(0x61, 0x62));
            0
        }
        _ => {
            ops.push(Op::Char(0x61));
            ops.push(Op::Concat(0, 0));
            ops.push(Op::Union(0, 1));
            2
        }
    };
    ops.push(Op::Char(0x63));
    let other = ops.len() - 1;
    let big = |rng: &mut Rng| -> u32 { *rng.pick(&[u32::MAX, u32::MAX, u32::MAX - 1, u32::MAX / 2 + 1, u32::MAX / 2]) };
    let mut pool: Vec<usize> = Vec::new();
    for _ in 0..2 {
        let lo = rng.below(3) as u32;
        let op = match rng.below(4) {
            0 => Op::SmtLoop(body, lo, big(rng)),
            1 => Op::LoopFin(body, lo, big(rng)),
            // unbounded with a lower bound next to u32::MAX or 2^31 (sums of two lower bounds wrap)
            2 => Op::LoopInf(body, big(rng) - rng.below(2) as u32),
            _ => {
                let hi = big(rng);
                Op::LoopFin(body, hi - 3, hi)
            }
        };
        ops.push(op);
        pool.push(ops.len() - 1);
    }
    // first the shapes whose CONSTRUCTION cannot overflow but whose derivatives concatenate two loops over the same
    // body: (L1 + c) . L2 and L1 . (c + L2); a constructor that merges L1 . L2 directly (and may panic with the
    // documented overflow, which ends the program) only comes afterwards
    let (l1, l2) = (pool[0], pool[1]);
    ops.push(Op::Union(l1, other));
    let u1 = ops.len() - 1;
    ops.push(Op::Concat(u1, l2));
    pool.push(ops.len() - 1);
    ops.push(Op::Union(other, l2));
    let u2 = ops.len() - 1;
    ops.push(Op::Concat(l1, u2));
    pool.push(ops.len() - 1);
    let steps = 2 + rng.usize(4);
    for _ in 0..steps {
        let x = *rng.pick(&pool);
        let y = *rng.pick(&pool);
        let op = match rng.below(10) {
            0 | 1 | 2 => Op::Concat(x, y),
            3 => Op::Union(x, other),
            4 => Op::Concat(body, x),
            5 => Op::Concat(x, body),
            6 => Op::Exp(x, 2),
            7 => Op::SmtLoop(x, rng.below(2) as u32, 2 + rng.below(2) as u32),
            8 => Op::ConcatList(vec![x, y, x]),
            _ => Op::Inter(x, y),
        };
        ops.push(op);
        pool.push(ops.len() - 1);
    }
    Program { points: vec![0x61, 0x62, 0x63], ops }
}

/// Loops of loops whose bounds are next to 2^16 (their products are next to 2^32) or next to 2^8 / 2^4:
/// (a^[0,65535] b)^[1,65536] and the like, plus one operator on top
pub fn nested_loop_program(rng: &mut Rng) -> Program {
    let mut ops: Vec<Op> = vec![Op::Char(0x61), Op::Char(0x62)];
    let base: u32 = *rng.pick(&[1u32 << 16, 1 << 16, 1 << 8, 1 << 4, 46_341]);
    let near = |rng: &mut Rng| -> u32 { (base as i64 + rng.below(3) as i64 - 1) as u32 };
    let lo = |rng: &mut Rng| -> u32 { rng.below(3) as u32 };
    // inner loop over a, followed (or not) by b
    let (l, h) = (lo(rng), near(rng));
    ops.push(if rng.chance(1, 2) { Op::SmtLoop(0, l, h) } else { Op::LoopFin(0, l, h) });
    let mut inner = ops.len() - 1;
    if rng.chance(2, 3) {
        ops.push(Op::Concat(inner, 1));
        inner = ops.len() - 1;
    }
    let (l2, h2) = (lo(rng), near(rng));
    ops.push(match rng.below(3) {
        0 => Op::SmtLoop(inner, l2, h2),
        1 => Op::LoopFin(inner, l2, h2),
        _ => Op::Exp(inner, h2),
    });
    let outer = ops.len() - 1;
    match rng.below(4) {
        0 => ops.push(Op::Concat(outer, 1)),
        1 => ops.push(Op::Union(outer, 1)),
        2 => ops.push(Op::Concat(0, outer)),
        _ => {}
    }
    Program { points: vec![0x61, 0x62, 0x63], ops }
}

/// Programs about the FIRST (and last) character of the members: complements of "starts with x", "is empty",
/// "ends with x", combined under heads that are nullable (x*, x?, (x+y)*) by concatenation, intersection, union and
/// complement. Members of such languages often start only with characters of the complementary derivative class.
pub fn firstchar_program(rng: &mut Rng) -> Program {
    let (x, y) = (0x61u32, 0x62u32);
    let mut ops: Vec<Op> = vec![Op::Char(x), Op::Char(y), Op::Eps, Op::Full];
    // 4: x.Sigma*   5: eps + x.Sigma*   6: not(eps + x.Sigma*)   7: Sigma*.x   8: not(Sigma*.x)   9: not eps
    ops.push(Op::Concat(0, 3));
    ops.push(Op::Union(2, 4));
    ops.push(Op::Comp(5));
    ops.push(Op::Concat(3, 0));
    ops.push(Op::Comp(7));
    ops.push(Op::Comp(2));
    // heads: 10: x*   11: x?   12: (x+y)*   13: y*
    ops.push(Op::Star(0));
    ops.push(Op::Opt(0));
    ops.push(Op::Union(0, 1));
    ops.push(Op::Star(12));
    ops.push(Op::Star(1));
    let heads = [10usize, 11, 13, 14, 2];
    let tails = [4usize, 5, 6, 7, 8, 9];
    let mut pool: Vec<usize> = Vec::new();
    for _ in 0..(2 + rng.usize(3)) {
        let h = *rng.pick(&heads);
        let t = *rng.pick(&tails);
        ops.push(Op::Concat(h, t));
        pool.push(ops.len() - 1);
    }
    pool.extend_from_slice(&tails);
    for _ in 0..(3 + rng.usize(5)) {
        let a = *rng.pick(&pool);
        let b = *rng.pick(&pool);
        let op = match rng.below(9) {
            0 | 1 => Op::Concat(*rng.pick(&heads), a),
            2 => Op::Concat(a, *rng.pick(&heads)),
            3 | 4 => Op::Inter(a, b),
            5 => Op::Union(a, b),
            6 => Op::Comp(a),
            7 => Op::Concat(a, b),
            _ => Op::Diff(a, b),
        };
        ops.push(op);
        pool.push(ops.len() - 1);
    }
    Program { points: vec![x, y, 0x63], ops }
}

/// A loop over a word of two or three letters followed by a word that overlaps it: (ab)*bc, (aba)+ab, (ab){1,2}b ...
/// (a match of the whole pattern may start in the middle of what looks like an iteration of the loop)
pub fn loopword_program(rng: &mut Rng) -> Program {
    if rng.chance(1, 3) {
        return starhead_program(rng);
    }
    let letters = [0x61u32, 0x62, 0x63];
    let word = |rng: &mut Rng, n: usize| -> Vec<u32> {
        (0..n)
            .map(|_| {
                let k = if rng.chance(1, 4) { 3 } else { 2 };
                letters[rng.usize(k)]
            })
            .collect()
    };
    let n1 = 2 + rng.usize(2);
    let w1 = word(rng, n1);
    // the tail starts with a suffix of the loop body (overlap), then continues
    let cut = 1 + rng.usize(w1.len() - 1);
    let mut w2: Vec<u32> = w1[cut..].to_vec();
    let n2 = 1 + rng.usize(2);
    w2.extend(word(rng, n2));
    let mut ops = vec![Op::Str(w1), Op::Str(w2)];
    ops.push(match rng.below(5) {
        0 | 1 => Op::Star(0),
        2 => Op::Plus(0),
        3 => Op::Opt(0),
        _ => Op::SmtLoop(0, 1, 2),
    });
    ops.push(Op::Concat(2, 1));
    if rng.chance(1, 3) {
        ops.push(Op::Char(0x63));
        ops.push(Op::Union(3, 4));
    }
    Program { points: letters.to_vec(), ops }
}

/// Intersections of three or more languages that are pairwise compatible but jointly empty (or jointly a single
/// word): {w1,w2} & {w2,w3} & {w1,w3}; [a-c] & not a & not b & not c; also under a prefix, inside a union, starred
pub fn joint_program(rng: &mut Rng) -> Program {
    let mut ops: Vec<Op> = Vec::new();
    let k = 3 + rng.usize(2);
    let empty = rng.chance(2, 3);
    if rng.chance(1, 2) {
        // words: operand i is the union of all words but w_i (jointly empty), or all but w_i and one common word
        let words: Vec<Vec<u32>> = (0..k).map(|i| vec![0x61 + i as u32, 0x62 + i as u32]).collect();
        let common: Vec<u32> = vec![0x7a, 0x7a];
        for w in &words {
            ops.push(Op::Str(w.clone()));
        }
        ops.push(Op::Str(common));
        let mut parts = Vec::new();
        for i in 0..k {
            let mut v: Vec<usize> = (0..k).filter(|&j| j != i && (k > 3 || true)).filter(|&j| (j + 1) % k != i || k == 3).collect();
            if v.len() < 2 {
                v = (0..k).filter(|&j| j != i).collect();
            }
            if !empty {
                v.push(k);
            }
            ops.push(Op::UnionList(v));
            parts.push(ops.len() - 1);
        }
        if k == 3 || rng.chance(1, 2) {
            ops.push(Op::InterList(parts));
        } else {
            // the same as nested binary intersections
            let mut acc = parts[0];
            for &p in &parts[1..] {
                ops.push(Op::Inter(acc, p));
                acc = ops.len() - 1;
            }
        }
    } else {
        // character classes: a range and the complements of each of its characters (but one, if not empty)
        let lo = 0x61u32;
        ops.push(Op::Range(lo, lo + k as u32 - 1));
        let mut parts = vec![0usize];
        let keep = if empty { k } else { rng.usize(k) };
        for i in 0..k {
            if i == keep {
                continue;
            }
            ops.push(Op::Char(lo + i as u32));
            ops.push(Op::Comp(ops.len() - 1));
            parts.push(ops.len() - 1);
        }
        ops.push(Op::InterList(parts));
    }
    let core = ops.len() - 1;
    // and in context
    ops.push(Op::Char(0x78));
    let x = ops.len() - 1;
    match rng.below(5) {
        0 => ops.push(Op::Concat(x, core)),
        1 => ops.push(Op::Union(core, x)),
        2 => ops.push(Op::Star(core)),
        3 => {
            ops.push(Op::Concat(x, core));
            ops.push(Op::Plus(ops.len() - 1));
        }
        _ => ops.push(Op::Comp(core)),
    }
    Program { points: vec![0x61, 0x62, 0x63, 0x78, 0x7a], ops }
}

/// Sigma* (or x*) in front of alternatives of different lengths where a later-starting occurrence of one ends before
/// the first-starting occurrence of another: Sigma*.(abb + b), Sigma*.(a c* d + c), also with the star at the end
pub fn starhead_program(rng: &mut Rng) -> Program {
    let letters = [0x61u32, 0x62, 0x63];
    let mut ops: Vec<Op> = Vec::new();
    let n = 2 + rng.usize(2);
    let w1: Vec<u32> = (0..n).map(|_| letters[rng.usize(2)]).collect();
    // the second alternative: a proper suffix (or an inner factor) of the first
    let from = 1 + rng.usize(n - 1);
    let w2: Vec<u32> = w1[from..].to_vec();
    ops.push(Op::Str(w1));
    ops.push(Op::Str(w2));
    let mut alt = {
        ops.push(Op::Union(0, 1));
        2
    };
    if rng.chance(1, 3) {
        // x y* z + y
        ops.push(Op::Char(0x61));
        ops.push(Op::Char(0x63));
        ops.push(Op::Star(4));
        ops.push(Op::Char(0x62));
        ops.push(Op::ConcatList(vec![3, 5, 6]));
        ops.push(Op::Union(7, 4));
        alt = 8;
    }
    ops.push(if rng.chance(2, 3) { Op::Full } else { Op::Star(0) });
    let star = ops.len() - 1;
    match rng.below(3) {
        0 | 1 => ops.push(Op::Concat(star, alt)),
        _ => ops.push(Op::ConcatList(vec![star, alt, star])),
    }
    Program { points: letters.to_vec(), ops }
}
