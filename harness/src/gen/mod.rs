pub mod autos;
pub mod parts;
pub mod reprog;
