//! C11 — CharPartition queries agree with the set-theoretic meaning of the partition.

use crate::gen::parts::*;
use crate::util::*;
use aws_smt_strings::automata::AutomatonBuilder;
use aws_smt_strings::character_sets::*;
use aws_smt_strings::errors::Error;
use aws_smt_strings::regular_expressions::ReManager;

/// same intervals and same emptiness of the complementary class (the witness itself may legitimately differ)
pub fn same_partition(a: &CharPartition, b: &CharPartition) -> bool {
    a.len() == b.len() && a.ranges().zip(b.ranges()).all(|(x, y)| x == y) && a.empty_complement() == b.empty_complement()
}

fn build_push(p: &Ivs) -> CharPartition {
    let mut cp = CharPartition::new();
    for &(a, b) in p {
        cp.push(a, b);
    }
    cp
}

fn sets(p: &Ivs) -> Vec<CharSet> {
    p.iter().map(|&(a, b)| CharSet::range(a, b)).collect()
}

fn cover_by_definition(p: &Ivs, a: u32, b: u32) -> CoverResult {
    if let Some(i) = p.iter().position(|&(x, y)| x <= a && b <= y) {
        CoverResult::CoveredBy(i)
    } else if p.iter().all(|&(x, y)| b < x || y < a) {
        CoverResult::DisjointFromAll
    } else {
        CoverResult::Overlaps
    }
}

/// all checks on one partition object `cp` that is supposed to denote `p`
pub fn check_partition(rep: &mut Report, p: &Ivs, cp: &CharPartition, how: &str, seed: u64, thorough: bool, rng: &mut Rng) -> bool {
    let case = show(p);
    macro_rules! bad {
        ($rule:expr, $($arg:tt)*) => {{
            rep.violation($rule, &format!("{}:{}", $rule, how), format!($($arg)*), "partition", &case, seed);
            return false;
        }};
    }
    rep.inc("partitions_checked");
    // structure
    if cp.len() != p.len() || cp.is_empty() != p.is_empty() {
        bad!("structure", "{}: len() = {} for {}", how, cp.len(), case);
    }
    for (i, &(a, b)) in p.iter().enumerate() {
        let iv = cp.interval(i);
        if cp.get(i) != (a, b) || cp.start(i) != a || cp.end(i) != b || cp.pick(i) < a || cp.pick(i) > b || iv.pick() != a || iv.size() != b - a + 1 {
            bad!("structure", "{}: interval {} of {} reads as {:?}", how, i, case, cp.get(i));
        }
    }
    let rs: Vec<(u32, u32)> = cp.ranges().map(|s| (s.pick(), s.pick() + (s.size() - 1))).collect();
    if &rs != p {
        bad!("structure", "{}: ranges() of {} = {:x?}", how, case, rs);
    }
    if cp.get(p.len()) != (MAXC + 1, MAXC + 1) || cp.start(p.len() + 2) != MAXC + 1 || cp.end(p.len()) != MAXC + 1 {
        bad!("structure", "{}: out-of-range get/start/end of {} do not return MAX_CHAR+1", how, case);
    }
    // complement
    let wit = witness(p);
    let comp_empty = wit > MAXC;
    if cp.empty_complement() != comp_empty {
        bad!("complement", "{}: empty_complement() = {} for {}", how, cp.empty_complement(), case);
    }
    if !comp_empty && (cp.pick_complement() > MAXC || class_of(p, cp.pick_complement()).is_some()) {
        bad!("complement", "{}: pick_complement() = {:x} for {} is not a character of the complementary class (least uncovered character: {:x})", how, cp.pick_complement(), case, wit);
    }
    if !comp_empty && cp.pick_complement() == wit {
        rep.inc("witness_is_least_uncovered_character");
    }
    let n = p.len();
    if cp.num_classes() != n + (!comp_empty) as usize {
        bad!("classes", "{}: num_classes() = {} for {}", how, cp.num_classes(), case);
    }
    let mut want_ids: Vec<ClassId> = (0..n).map(ClassId::Interval).collect();
    if !comp_empty {
        want_ids.push(ClassId::Complement);
    }
    let ids: Vec<ClassId> = cp.class_ids().collect();
    if ids != want_ids || cp.class_ids().size_hint() != (want_ids.len(), Some(want_ids.len())) {
        bad!("classes", "{}: class_ids() = {:?} for {}", how, ids, case);
    }
    for cid in [ClassId::Interval(0), ClassId::Interval(n.saturating_sub(1)), ClassId::Interval(n), ClassId::Interval(n + 1), ClassId::Interval(usize::MAX), ClassId::Interval(usize::MAX - 1), ClassId::Interval(1 << 32), ClassId::Complement] {
        let want = match cid {
            ClassId::Interval(i) => i < n,
            ClassId::Complement => !comp_empty,
        };
        if cp.valid_class_id(cid) != want {
            bad!("classes", "{}: valid_class_id({}) = {} for {}", how, cid, !want, case);
        }
    }
    // the three public iterators obey the iterator laws (count, last, nth, partial consumption)
    rep.inc("iterator_law_checks");
    if let Err(e) = iter_laws(|| cp.class_ids()) {
        bad!("classes", "{}: class_ids() of {}: {}", how, case, e);
    }
    if let Err(e) = iter_laws(|| cp.picks()) {
        bad!("picks", "{}: picks() of {}: {}", how, case, e);
    }
    if let Err(e) = iter_laws(|| cp.ranges()) {
        bad!("structure", "{}: ranges() of {}: {}", how, case, e);
    }
    let picks: Vec<u32> = cp.picks().collect();
    if picks.len() != want_ids.len() {
        bad!("picks", "{}: picks() yields {} characters for {} classes of {}", how, picks.len(), want_ids.len(), case);
    }
    for (k, &c) in picks.iter().enumerate() {
        let cls = class_of(p, c);
        let ok = if k < n { cls == Some(k) } else { cls.is_none() && c <= MAXC };
        if !ok {
            bad!("picks", "{}: pick {} = {:x} is not in class {} of {}", how, k, c, k, case);
        }
        if cp.pick_in_class(want_ids[k]) != c && class_of(p, cp.pick_in_class(want_ids[k])) != cls {
            bad!("picks", "{}: pick_in_class({}) is outside its class for {}", how, want_ids[k], case);
        }
    }
    // class_of_char on all break points
    let bps = break_points(&[p]);
    for &x in &bps {
        rep.inc("class_of_char_probes");
        let want = match class_of(p, x) {
            Some(i) => ClassId::Interval(i),
            None => ClassId::Complement,
        };
        match guard(|| cp.class_of_char(x)) {
            Ok(got) => {
                if got != want {
                    bad!("class_of_char", "{}: class_of_char({:x}) = {} for {}, expected {}", how, x, got, case, want);
                }
            }
            Err(m) => bad!("class_of_char", "{}: class_of_char({:x}) panicked: {}", how, x, m),
        }
    }
    // interval_cover / class_of_set / good_char_set on all pairs of break points
    let mut pairs: Vec<(u32, u32)> = Vec::new();
    for i in 0..bps.len() {
        for j in i..bps.len() {
            pairs.push((bps[i], bps[j]));
        }
    }
    let cap = if thorough { 4000 } else { 1200 };
    if pairs.len() > cap {
        rng.shuffle(&mut pairs);
        pairs.truncate(cap);
    }
    for (a, b) in pairs {
        rep.inc("cover_probes");
        let set = CharSet::range(a, b);
        let want = cover_by_definition(p, a, b);
        let got = match guard(|| (cp.interval_cover(&set), cp.class_of_set(&set), cp.good_char_set(&set))) {
            Ok(g) => g,
            Err(m) => bad!("cover", "{}: interval_cover([{:x},{:x}]) panicked for {}: {}", how, a, b, case, m),
        };
        let want_class = match want {
            CoverResult::CoveredBy(i) => Ok(ClassId::Interval(i)),
            CoverResult::DisjointFromAll => Ok(ClassId::Complement),
            CoverResult::Overlaps => Err(Error::AmbiguousCharSet),
        };
        if got.0 != want {
            bad!("cover", "{}: interval_cover([{:x},{:x}]) = {} for {}, expected {}", how, a, b, got.0, case, want);
        }
        if got.1 != want_class || got.2 != want_class.is_ok() {
            bad!("cover", "{}: class_of_set([{:x},{:x}]) = {:?}, good_char_set = {} for {}, expected {:?}", how, a, b, got.1, got.2, case, want_class);
        }
    }
    true
}

/// the same queries observed through Automaton::char_set_next and ReManager::set_derivative
fn check_through_clients(rep: &mut Report, p: &Ivs, seed: u64, rng: &mut Rng) {
    if p.is_empty() || p.len() > 12 {
        return;
    }
    let case = show(p);
    // automaton with one state whose transitions are the intervals (distinct targets), default to a sink
    let mut b: AutomatonBuilder<u32> = AutomatonBuilder::new(&0);
    let sink = 1000u32;
    for (i, &(x, y)) in p.iter().enumerate() {
        b.add_transition(&0, &CharSet::range(x, y), &(i as u32 + 1));
        b.set_default_successor(&(i as u32 + 1), &sink);
    }
    let comp_empty = witness(p) > MAXC;
    if !comp_empty {
        b.set_default_successor(&0, &sink);
    }
    b.set_default_successor(&sink, &sink);
    let auto = match guard(|| b.build()) {
        Ok(Ok(a)) => a,
        _ => return, // builder behaviour belongs to C13
    };
    let mut m = ReManager::new();
    // regex whose derivative classes are exactly p: union of range_i . char(i)
    let mut parts = Vec::new();
    for (i, &(x, y)) in p.iter().enumerate() {
        let r = m.range(x, y);
        let c = m.char(0x100 + i as u32);
        parts.push(m.concat(r, c));
    }
    let e = m.union_list(parts);
    let same_classes = e.char_ranges().map(|s| (s.pick(), s.pick() + (s.size() - 1))).collect::<Vec<_>>() == *p;
    let bps = break_points(&[p]);
    let s0 = auto.initial_state();
    for _ in 0..200 {
        let a = *rng.pick(&bps);
        let b2 = *rng.pick(&bps);
        let (a, b2) = (a.min(b2), a.max(b2));
        let set = CharSet::range(a, b2);
        let want = cover_by_definition(p, a, b2);
        rep.inc("client_probes");
        match guard(|| auto.char_set_next(s0, &set).map(|s| s.id())) {
            Ok(r) => {
                let ok = match want {
                    CoverResult::Overlaps => r.is_err(),
                    CoverResult::CoveredBy(_) | CoverResult::DisjointFromAll => r.is_ok() && r.ok() == Some(auto.next(s0, a).id()),
                };
                if !ok {
                    rep.violation("client", "client:char_set_next", format!("char_set_next(state with classes {}, [{:x},{:x}]) = {:?} but the set is {}", case, a, b2, r, want), "partition", &case, seed);
                    return;
                }
            }
            Err(msg) => {
                rep.violation("client", "client:char_set_next", format!("char_set_next panicked: {}", msg), "partition", &case, seed);
                return;
            }
        }
        if same_classes {
            match guard(|| m.set_derivative(e, &set)) {
                Ok(r) => {
                    let ok = match want {
                        CoverResult::Overlaps => r.is_err(),
                        _ => r.is_ok() && std::ptr::eq(r.unwrap(), m.char_derivative(e, a)),
                    };
                    if !ok {
                        rep.violation("client", "client:set_derivative", format!("set_derivative(term with classes {}, [{:x},{:x}]) is {} but the set is {}", case, a, b2, if r.is_ok() { "Ok" } else { "Err" }, want), "partition", &case, seed);
                        return;
                    }
                }
                Err(msg) => {
                    rep.violation("client", "client:set_derivative", format!("set_derivative panicked: {}", msg), "partition", &case, seed);
                    return;
                }
            }
        }
    }
}

pub fn check_case(rep: &mut Report, p: &Ivs, seed: u64, thorough: bool) {
    let mut rng = Rng::new(seed);
    let case = show(p);
    // built by push
    let cp = match guard(|| build_push(p)) {
        Ok(c) => c,
        Err(m) => {
            rep.violation("build", "build:push", format!("push panicked for {}: {}", case, m), "partition", &case, seed);
            return;
        }
    };
    if !check_partition(rep, p, &cp, "push", seed, thorough, &mut rng) {
        return;
    }
    // the same partition built incrementally with queries between the pushes: after every push the object must
    // answer for the intervals it holds so far (queries target the interval about to be pushed and the last one)
    if p.len() >= 2 && p.len() <= 40 {
        let mut inc = CharPartition::new();
        for (i, &(a, b)) in p.iter().enumerate() {
            let partial: Ivs = p[..i].to_vec();
            // the last query before the push is a character of the interval about to be pushed
            for x in [if i > 0 { p[i - 1].1 } else { 0 }, b, a + (b - a) / 2, a] {
                rep.inc("interleaved_queries");
                let want = match class_of(&partial, x) {
                    Some(k) => ClassId::Interval(k),
                    None => ClassId::Complement,
                };
                let got = inc.class_of_char(x);
                let cover = inc.interval_cover(&CharSet::singleton(x));
                let want_cover = cover_by_definition(&partial, x, x);
                if got != want || cover != want_cover {
                    rep.violation("interleaved", "interleaved:query-between-pushes", format!("after pushing {} of the intervals of {}: class_of_char({:x}) = {}, interval_cover = {}, expected {} / {}", i, case, x, got, cover, want, want_cover), "partition", &case, seed);
                    return;
                }
            }
            if i == p.len() / 2 {
                // a clone taken mid-way must keep answering for its own (shorter) list after the original grows
                let snapshot = inc.clone();
                inc.push(a, b);
                let x = a;
                if snapshot.class_of_char(x) != ClassId::Complement && class_of(&partial, x).is_none() {
                    rep.violation("interleaved", "interleaved:clone", format!("a clone taken before pushing [{:x},{:x}] answers class_of_char({:x}) = {}", a, b, x, snapshot.class_of_char(x)), "partition", &case, seed);
                    return;
                }
                continue;
            }
            inc.push(a, b);
            // ... and the first query after the push asks for the same character again
            let got = inc.class_of_char(a);
            if got != ClassId::Interval(i) {
                rep.violation("interleaved", "interleaved:query-after-push", format!("right after pushing [{:x},{:x}] as interval {} of {}: class_of_char({:x}) = {}", a, b, i, case, a, got), "partition", &case, seed);
                return;
            }
        }
        if !same_partition(&inc, &cp) {
            rep.violation("interleaved", "interleaved:final", format!("incrementally built partition differs for {}", case), "partition", &case, seed);
            return;
        }
        // and re-ask every break point after the whole history
        for &x in &break_points(&[p]) {
            let want = match class_of(p, x) {
                Some(k) => ClassId::Interval(k),
                None => ClassId::Complement,
            };
            if inc.class_of_char(x) != want {
                rep.violation("interleaved", "interleaved:after-history", format!("incrementally built {}: class_of_char({:x}) = {}, expected {}", case, x, inc.class_of_char(x), want), "partition", &case, seed);
                return;
            }
        }
    }
    // clone() and clone_from() into destinations that held something else
    {
        let c1 = cp.clone();
        if !same_partition(&c1, &cp) || !check_partition(rep, p, &c1, "clone", seed, false, &mut rng) {
            rep.violation("build", "build:clone", format!("clone() of the partition {} differs from it", case), "partition", &case, seed);
            return;
        }
        let mut dests = vec![CharPartition::new(), CharPartition::from_set(&CharSet::all_chars()), CharPartition::from_set(&CharSet::range(3, 9))];
        let other = gen_intervals(&mut rng, 5);
        let mut d3 = CharPartition::new();
        for &(a, b) in &other {
            d3.push(a, b);
        }
        dests.push(d3);
        for (i, mut d) in dests.into_iter().enumerate() {
            rep.inc("clone_from_probes");
            d.clone_from(&cp);
            if !check_partition(rep, p, &d, &format!("clone_from#{}", i), seed, false, &mut rng) {
                return;
            }
        }
    }
    // from_set for single intervals
    if p.len() == 1 {
        let c1 = CharPartition::from_set(&CharSet::range(p[0].0, p[0].1));
        if !same_partition(&c1, &cp) {
            rep.violation("build", "build:from_set", format!("from_set differs from the push-built partition for {}", case), "partition", &case, seed);
        }
        check_partition(rep, p, &c1, "from_set", seed, false, &mut rng);
    }
    // try_from_iter / try_from_list on shuffled input: same partition whatever the order
    let mut v = sets(p);
    for round in 0..3 {
        rng.shuffle(&mut v);
        rep.inc("try_from_iter_probes");
        let r = if round == 0 { guard(|| CharPartition::try_from_list(&v)) } else { guard(|| CharPartition::try_from_iter(v.iter().copied())) };
        match r {
            Ok(Ok(c2)) => {
                if !same_partition(&c2, &cp) {
                    rep.violation("build", "build:try_from_iter-order", format!("try_from_iter on a shuffled list of {} gives a different partition", case), "partition", &case, seed);
                    return;
                }
                if round == 0 && !check_partition(rep, p, &c2, "try_from_iter", seed, false, &mut rng) {
                    return;
                }
            }
            Ok(Err(e)) => {
                rep.violation("build", "build:try_from_iter-rejects-disjoint", format!("try_from_iter rejected the disjoint intervals {}: {}", case, e), "partition", &case, seed);
                return;
            }
            Err(m) => {
                rep.violation("build", "build:try_from_iter-panic", format!("try_from_iter panicked on {}: {}", case, m), "partition", &case, seed);
                return;
            }
        }
    }
    // overlapping input must be rejected: add an interval that shares at least one character with an existing one
    if !p.is_empty() {
        for _ in 0..4 {
            let &(a, b) = rng.pick(p);
            let x = a + rng.below((b - a + 1) as u64) as u32;
            let lo = x.saturating_sub(rng.below(3) as u32);
            let hi = (x + rng.below(3) as u32).min(MAXC);
            let mut v2 = sets(p);
            v2.push(CharSet::range(lo, hi));
            rng.shuffle(&mut v2);
            rep.inc("overlap_rejection_probes");
            match guard(|| CharPartition::try_from_iter(v2.iter().copied())) {
                Ok(Err(Error::NonDisjointCharSets)) => {}
                Ok(other) => {
                    rep.violation("build", "build:try_from_iter-accepts-overlap", format!("try_from_iter accepted {} plus the overlapping [{:x},{:x}]: {:?}", case, lo, hi, other.map(|c| c.len())), "partition", &case, seed);
                    return;
                }
                Err(m) => {
                    rep.violation("build", "build:try_from_iter-panic", format!("try_from_iter panicked: {}", m), "partition", &case, seed);
                    return;
                }
            }
        }
    }
    check_through_clients(rep, p, seed, &mut rng);
}

pub fn run(p: &Params, rep: &mut Report) {
    if p.shard == 3 {
        super::ladder::discrete_partitions(rep, "C11", p.seed);
    }
    let mut rng = p.rng(11);
    let n = p.size(6000, 80_000);
    for i in 0..n {
        let ivs = gen_intervals(&mut rng, if i % 5 == 0 { 14 } else { 6 });
        let seed = rng.next();
        rep.hist("intervals", &format!("{}", ivs.len().min(10)));
        rep.eval(Some(&show(&ivs)));
        rep.sample(|| show(&ivs));
        let r = guard(|| check_case(rep, &ivs, seed, p.thorough));
        if let Err(m) = r {
            if panic_in_harness(&m) {
                rep.harness_error(m);
            } else {
                rep.violation("panic", "panic-unguarded", format!("crate panicked: {}", m), "partition", &show(&ivs), seed);
            }
        }
        // full-alphabet sweep of class_of_char on a sample
        if p.thorough && i % 50 == 0 {
            let cp = build_push(&ivs);
            for x in 0..=MAXC {
                let want = match class_of(&ivs, x) {
                    Some(k) => ClassId::Interval(k),
                    None => ClassId::Complement,
                };
                if cp.class_of_char(x) != want {
                    rep.violation("class_of_char", "class_of_char:sweep", format!("class_of_char({:x}) wrong for {}", x, show(&ivs)), "partition", &show(&ivs), seed);
                    break;
                }
            }
            rep.inc("full_alphabet_sweeps");
        }
    }
}

pub fn replay(kind: &str, text: &str, seed: u64, rep: &mut Report) -> bool {
    if kind != "partition" {
        return false;
    }
    check_case(rep, &parse(text), seed, false);
    true
}
