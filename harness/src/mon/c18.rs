//! C18 — start_char / start_class are exact.

use super::c01::cfg;
use super::rectx::*;
use crate::gen::reprog::*;
use crate::util::*;
use aws_smt_strings::character_sets::ClassId;
use aws_smt_strings::errors::Error;
use aws_smt_strings::regular_expressions::RegLan;

pub fn check_term(s: &mut Sess, rep: &mut Report, t: RegLan, k: usize) {
    // start_char on complements runs an emptiness check of a derivative: keep the closure bounded
    if closure_size(&mut s.m, t, 1500).is_none() {
        rep.inc("skipped_derivative_budget");
        return;
    }
    s.align_to(t);
    let dref = match s.ctx.term_dfa(t) {
        Ok(d) => d,
        Err(_) => {
            rep.inc("skipped_refdfa_budget");
            return;
        }
    };
    let probes = s.probe_chars(t);
    let ranges = ranges_of(t);
    let atoms = s.ctx.atoms().clone();
    let want_of = |c: u32| !dref.is_empty_from(dref.step(dref.start, atoms.of(c)));
    rep.inc("terms_checked");
    for &c in &probes {
        rep.inc("start_char_probes");
        let want = want_of(c);
        match guard(|| s.m.start_char(t, c)) {
            Ok(got) => {
                if got != want {
                    s.viol(rep, "start-char", if got { "start-char:false-positive" } else { "start-char:false-negative" }, format!("start_char({}, {:x}) = {} but {} member starts with that character", term_text(t), c, got, if want { "some" } else { "no" }), k);
                    break;
                }
                if want {
                    rep.inc("start_char_true_answers");
                }
            }
            Err(msg) => {
                s.viol(rep, "start-char", "start-char:panic", format!("start_char({}, {:x}) panicked: {}", term_text(t), c, msg), k);
                break;
            }
        }
    }
    let n = ranges.len();
    let mut ids: Vec<ClassId> = (0..n).map(ClassId::Interval).collect();
    if !t.empty_complement() {
        ids.push(ClassId::Complement);
    }
    for cid in ids {
        rep.inc("start_class_probes");
        let chars: Vec<u32> = probes
            .iter()
            .copied()
            .filter(|&c| match (cid, class_by_scan(&ranges, c)) {
                (ClassId::Interval(i), Some(j)) => i == j,
                (ClassId::Complement, None) => true,
                _ => false,
            })
            .collect();
        match guard(|| s.m.start_class(t, cid)) {
            Ok(Ok(got)) => {
                for c in chars {
                    if want_of(c) != got {
                        s.viol(rep, "start-class", "start-class:wrong", format!("start_class({}, {}) = {} but for character {:x} of that class the answer is {}", term_text(t), cid, got, c, !got), k);
                        break;
                    }
                }
            }
            Ok(Err(e)) => s.viol(rep, "start-class", "start-class:rejects-valid", format!("start_class({}, {}) = Err({})", term_text(t), cid, e), k),
            Err(msg) => s.viol(rep, "start-class", "start-class:panic", format!("start_class({}, {}) panicked: {}", term_text(t), cid, msg), k),
        }
    }
    let mut bad = vec![ClassId::Interval(n), ClassId::Interval(n + 3)];
    if t.empty_complement() {
        bad.push(ClassId::Complement);
    }
    for cid in bad {
        rep.inc("invalid_class_id_probes");
        match guard(|| s.m.start_class(t, cid)) {
            Ok(Err(Error::BadClassId)) => {}
            Ok(other) => s.viol(rep, "bad-class-id", "bad-class-id:accepted", format!("start_class({}, {}) = {:?}, expected Err(BadClassId)", term_text(t), cid, other), k),
            Err(msg) => s.viol(rep, "bad-class-id", "bad-class-id:panic", format!("start_class({}, {}) panicked: {}", term_text(t), cid, msg), k),
        }
    }
}

pub fn check_program(prog: &Program, seed: u64, thorough: bool, rep: &mut Report) {
    let c = cfg(thorough);
    let mut s = Sess::start(prog, seed, thorough, c.budget, c.noise, rep);
    for k in 0..s.run.terms.len() {
        let t = s.run.terms[k];
        let nontrivial = s.run.refs[k].size() >= 3;
        let key = s.run.refs[k].show();
        rep.eval(if nontrivial { Some(&key) } else { None });
        check_term(&mut s, rep, t, k);
        // and against the expression as the caller wrote it
        let rb = s.run.refs[k].clone();
        if closure_size(&mut s.m, t, 1500).is_some() {
            if let Ok(db) = s.ctx.dfa(&rb) {
                let probes = s.probe_chars(t);
                let atoms = s.ctx.atoms().clone();
                rep.inc("terms_checked_against_construction");
                for &c in &probes {
                    let want = !db.is_empty_from(db.step(db.start, atoms.of(c)));
                    if let Ok(got) = guard(|| s.m.start_char(t, c)) {
                        if got != want {
                            s.viol(rep, "start-char", "start-char:vs-construction", format!("start_char of the construction {} (term {}) for {:x} = {} but {} member of its SMT-LIB language starts with that character", short(&rb.show(), 160), term_text(t), c, got, if want { "some" } else { "no" }), k);
                            break;
                        }
                    }
                }
            }
        }
    }
}

pub fn run(p: &Params, rep: &mut Report) {
    if p.shard == 4 {
        let n = if p.thorough { super::scale::N_THOROUGH } else { super::scale::N_QUICK };
        super::scale::c18(rep, n, p.seed);
    }
    if p.shard == 6 {
        for centre in [256, 65536] {
            super::ladder::traversal_gap(rep, super::ladder::Trav::StartChar, centre, p.seed);
        }
    }
    for_firstchar_programs(p, rep, p.size(25, 250), |prog, seed, rep| check_program(prog, seed, p.thorough, rep));
    for_max_loop_programs(p, rep, p.size(6, 60), |prog, seed, rep| check_program(prog, seed, p.thorough, rep));
    let stride = 1;
    for_tiny_programs(p, rep, stride, p.size(150, 3000), |prog, seed, rep| check_program(prog, seed, p.thorough, rep));
    let n = p.size(250, 2500);
    let w = [(Profile::Boundary, 20), (Profile::Loops, 20), (Profile::Boolean, 35), (Profile::Patterns, 10), (Profile::Mixed, 15)];
    for_programs(p, rep, 18, n, &w, (15, 40), |prog, seed, rep| check_program(prog, seed, p.thorough, rep));
}

pub fn replay(kind: &str, text: &str, seed: u64, rep: &mut Report) -> bool {
    if kind == "scale" {
        super::scale::c18(rep, text.trim().parse().unwrap_or(super::scale::N_QUICK), seed);
        return true;
    }
    if kind != KIND_MGR {
        return false;
    }
    replay_program(text, rep, |p, rep| check_program(p, seed, false, rep))
}
