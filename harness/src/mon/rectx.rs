//! Shared context for regex monitors: a manager-side run of a construction program,
//! the reference engine, and the structural reading of crate terms (through the verif-hooks accessors).

use crate::gen::reprog::*;
use crate::oracle::re::*;
use crate::util::*;
use aws_smt_strings::regular_expressions::{BaseRegLan, ReManager, RegLan};
use std::collections::HashMap;
use std::rc::Rc;

pub struct ReCtx {
    pub eng: Engine,
    smemo: HashMap<usize, (RegLan, R)>,
}

impl ReCtx {
    pub fn new(points: &[u32], budget: usize) -> ReCtx {
        ReCtx { eng: Engine::new(Atoms::from_points(points), budget), smemo: HashMap::new() }
    }

    /// standard denotation of a crate term, read from its own AST (no crate algorithm involved)
    pub fn sref(&mut self, t: RegLan) -> R {
        let id = t.verif_id();
        if let Some((p, r)) = self.smemo.get(&id) {
            if std::ptr::eq(*p, t) {
                return r.clone();
            }
        }
        let r: R = match t.verif_expr() {
            BaseRegLan::Empty => r_none(),
            BaseRegLan::Epsilon => r_eps(),
            BaseRegLan::Range(cs) => {
                let lo = cs.pick();
                let hi = lo + (cs.size() - 1);
                r_range(lo, hi)
            }
            BaseRegLan::Concat(a, b) => {
                let (x, y) = (self.sref(a), self.sref(b));
                r_cat(vec![x, y])
            }
            BaseRegLan::Loop(x, rng) => {
                let (lo, hi) = rng.verif_bounds();
                let b = self.sref(x);
                r_loop(b, lo, hi)
            }
            BaseRegLan::Complement(x) => {
                let b = self.sref(x);
                r_not(b)
            }
            BaseRegLan::Union(v) => {
                let l: Vec<R> = v.iter().map(|x| self.sref(x)).collect();
                r_or(l)
            }
            BaseRegLan::Inter(v) => {
                let l: Vec<R> = v.iter().map(|x| self.sref(x)).collect();
                r_and(l)
            }
        };
        self.smemo.insert(id, (t, r.clone()));
        r
    }

    pub fn dfa(&mut self, r: &R) -> Res<Rc<Dfa>> {
        self.eng.ensure_ref(r);
        self.eng.dfa(r)
    }

    /// both DFAs over the same (possibly refined) atoms
    pub fn pair(&mut self, r1: &R, r2: &R) -> Res<(Rc<Dfa>, Rc<Dfa>)> {
        self.eng.ensure_ref(r1);
        self.eng.ensure_ref(r2);
        let d1 = self.eng.dfa(r1)?;
        let d2 = self.eng.dfa(r2)?;
        Ok((d1, d2))
    }

    pub fn term_dfa(&mut self, t: RegLan) -> Res<Rc<Dfa>> {
        let r = self.sref(t);
        self.dfa(&r)
    }

    pub fn atoms(&self) -> &Atoms {
        &self.eng.atoms
    }

    /// letters for membership probes: both ends of a few atoms
    pub fn letters(&self, rng: &mut Rng, max_atoms: usize) -> Vec<u32> {
        let a = self.atoms();
        let mut ks: Vec<usize> = (0..a.n()).collect();
        rng.shuffle(&mut ks);
        ks.truncate(max_atoms);
        let mut v = Vec::new();
        for k in ks {
            v.push(a.lo[k]);
            if a.hi(k) != a.lo[k] && rng.chance(1, 2) {
                v.push(a.hi(k));
            }
        }
        v
    }
}

pub struct Run {
    pub terms: Vec<RegLan>,
    pub refs: Vec<R>,
}

pub enum RunErr {
    /// constructor panicked at step k with a message that is not a documented panic
    Panic(usize, String),
    /// documented arithmetic-overflow panic of loop ranges: the program is skipped from step k on
    Overflow(usize),
}

pub fn is_overflow_panic(msg: &str) -> bool {
    msg.contains("Arithmetic overflow")
}

/// run a program through the methods of `m`; stops at the first panic
pub fn run_mgr(m: &mut ReManager, prog: &Program, upto: usize) -> (Run, Option<RunErr>) {
    let mut run = Run { terms: Vec::new(), refs: Vec::new() };
    for (k, op) in prog.ops.iter().enumerate().take(upto) {
        let r = op.denote(&run.refs);
        match guard(|| op.apply_mgr(m, &run.terms)) {
            Ok(t) => {
                run.terms.push(t);
                run.refs.push(r);
            }
            Err(msg) => {
                let e = if is_overflow_panic(&msg) { RunErr::Overflow(k) } else { RunErr::Panic(k, msg) };
                return (run, Some(e));
            }
        }
    }
    (run, None)
}

/// run a program through the SMT-LIB-named wrappers (thread-local manager of the current thread)
pub fn run_wrap(prog: &Program, upto: usize) -> (Run, Option<RunErr>) {
    let mut run = Run { terms: Vec::new(), refs: Vec::new() };
    for (k, op) in prog.ops.iter().enumerate().take(upto) {
        let r = op.denote(&run.refs);
        match guard(|| op.apply_wrap(&run.terms)) {
            Ok(t) => {
                run.terms.push(t);
                run.refs.push(r);
            }
            Err(msg) => {
                let e = if is_overflow_panic(&msg) { RunErr::Overflow(k) } else { RunErr::Panic(k, msg) };
                return (run, Some(e));
            }
        }
    }
    (run, None)
}

/// wall-clock budget (ms) for one closure enumeration; exceeding it only ever SKIPS a case (counted), it is
/// never a verdict. Needed because the cost per derivative of nested counting loops grows to ~10 ms.
pub static CLOSURE_MS: std::sync::atomic::AtomicU64 = std::sync::atomic::AtomicU64::new(400);

/// number of distinct iterated derivatives of e, or None if more than cap or over the time budget
/// (pulls the iterator lazily)
pub fn closure_size(m: &mut ReManager, e: RegLan, cap: usize) -> Option<usize> {
    let limit = CLOSURE_MS.load(std::sync::atomic::Ordering::Relaxed);
    let t0 = std::time::Instant::now();
    let mut n = 0usize;
    for _ in m.iter_derivatives(e) {
        n += 1;
        if n > cap {
            return None;
        }
        if n % 16 == 0 && t0.elapsed().as_millis() as u64 > limit {
            return None;
        }
    }
    Some(n)
}

/// bulk history: n distinct unrelated terms (ids grow past 2n), so that the program under test works with large ids,
/// a large store and a grown hash map
pub fn bulk_preload(m: &mut ReManager, n: u32) {
    let mut prev = m.epsilon();
    for i in 0..n {
        let lo = 0x1000 + (i % 0x20000);
        let r = m.range(lo, lo + 1 + (i / 0x20000));
        if i % 4 == 0 {
            prev = m.concat(r, prev);
            if i % 64 == 0 {
                prev = m.epsilon();
            }
        }
    }
}

/// history noise: unrelated constructions and queries that change ids, operand order and cache contents
pub fn noise(m: &mut ReManager, rng: &mut Rng, pool: &[RegLan], n: usize, deriv_cap: usize) {
    let mut local: Vec<RegLan> = pool.to_vec();
    if local.is_empty() {
        local.push(m.all_chars());
    }
    for _ in 0..n {
        let x = *rng.pick(&local);
        let y = *rng.pick(&local);
        let r = guard(|| match rng.below(14) {
            0 => Some(m.char(0x41 + rng.below(60) as u32)),
            1 => {
                let a = rng.below(0x30000) as u32;
                let b = rng.below(0x30000) as u32;
                Some(m.range(a.min(b), a.max(b)))
            }
            2 => Some(m.concat(x, y)),
            3 => Some(m.union(x, y)),
            4 => Some(m.inter(x, y)),
            5 => Some(m.complement(x)),
            6 => Some(m.star(x)),
            7 => Some(m.smt_loop(x, rng.below(3) as u32, 2 + rng.below(3) as u32)),
            8 => Some(m.char_derivative(x, 0x61 + rng.below(4) as u32)),
            9 => {
                let w: Vec<u32> = (0..rng.below(4)).map(|_| 0x61 + rng.below(4) as u32).collect();
                Some(m.str_derivative(x, &w[..].into()))
            }
            10 => {
                if closure_size(m, x, deriv_cap).is_some() {
                    let _ = m.is_empty_re(x);
                }
                None
            }
            11 => {
                if closure_size(m, x, deriv_cap).is_some() {
                    let _ = m.compile(x);
                }
                None
            }
            12 => {
                if closure_size(m, x, deriv_cap).is_some() {
                    let _ = m.get_string(x);
                }
                None
            }
            _ => Some(m.diff(x, y)),
        });
        if let Ok(Some(t)) = r {
            if local.len() < 200 {
                local.push(t);
            }
        }
    }
}

pub fn term_text(t: RegLan) -> String {
    let s = format!("{}", t);
    if s.len() > 300 {
        let cut: String = s.chars().take(300).collect();
        format!("{}…", cut)
    } else {
        s
    }
}

// ------------------------------------------------------------------ sessions shared by the regex monitors

pub struct Sess<'a> {
    pub prog: &'a Program,
    pub m: ReManager,
    pub run: Run,
    pub ctx: ReCtx,
    pub seed: u64,
    pub thorough: bool,
    pub rng: Rng,
}

pub const KIND_MGR: &str = "reprog-mgr";

impl<'a> Sess<'a> {
    /// fresh manager, optional history noise, then the program
    pub fn start(prog: &'a Program, seed: u64, thorough: bool, budget: usize, noise_n: usize, rep: &mut Report) -> Sess<'a> {
        let mut rng = Rng::derive(seed, 0x5E55, prog.ops.len() as u64);
        let mut m = if rng.chance(1, 4) { ReManager::default() } else { ReManager::new() };
        if noise_n > 0 && rng.chance(1, 2) {
            noise(&mut m, &mut rng, &[], noise_n, 300);
        }
        let (run, err) = run_mgr(&mut m, prog, usize::MAX);
        match err {
            Some(RunErr::Panic(k, msg)) => {
                // attributed to C01 (constructor totality); other monitors just work with the prefix
                rep.inc("programs_cut_by_constructor_panic");
                let _ = (k, msg);
            }
            Some(RunErr::Overflow(_)) => rep.inc("programs_cut_by_documented_overflow_panic"),
            None => {}
        }
        let ctx = ReCtx::new(&prog.all_points(), budget);
        Sess { prog, m, run, ctx, seed, thorough, rng }
    }

    pub fn case(&self, k: usize) -> String {
        self.prog.slice(k).to_text()
    }

    pub fn viol(&self, rep: &mut Report, rule: &str, sig: &str, detail: String, k: usize) {
        rep.violation(rule, sig, detail, KIND_MGR, &self.case(k), self.seed);
    }

    /// probe characters for term t: every end point of its derivative classes, the neighbours just outside,
    /// an interior point, 0 and MAXC, plus both ends of every atom of the reference alphabet
    pub fn probe_chars(&mut self, t: RegLan) -> Vec<u32> {
        let ranges = ranges_of(t);
        let of_class = |v: &mut Vec<u32>, lo: u32, hi: u32| {
            v.push(lo);
            v.push(hi);
            v.push(lo + (hi - lo) / 2);
            if lo > 0 {
                v.push(lo - 1);
            }
            if hi < MAXC {
                v.push(hi + 1);
            }
        };
        let mut v = vec![0, MAXC];
        if ranges.len() <= 64 {
            for &(lo, hi) in &ranges {
                of_class(&mut v, lo, hi);
            }
        } else {
            // hundreds of classes (wide unions): the classes at both ends, those whose index is next to a power of two,
            // and a random sample
            let n = ranges.len();
            let mut idx: Vec<usize> = vec![0, 1, 2, n - 3, n - 2, n - 1];
            let mut p = 8usize;
            while p <= n + 1 {
                idx.extend([p - 2, p - 1, p, p + 1].into_iter().filter(|&d| d < n));
                p *= 2;
            }
            for _ in 0..24 {
                idx.push(self.rng.usize(n));
            }
            for i in idx {
                of_class(&mut v, ranges[i].0, ranges[i].1);
            }
        }
        // both ends of every atom of the reference alphabet (of a sample of 120 atoms when there are more)
        let a = self.ctx.atoms();
        if a.n() <= 120 {
            for k in 0..a.n() {
                v.push(a.lo[k]);
                v.push(a.hi(k));
            }
        } else {
            for _ in 0..120 {
                let k = self.rng.usize(a.n());
                v.push(a.lo[k]);
                v.push(a.hi(k));
            }
        }
        v.sort_unstable();
        v.dedup();
        v
    }

    /// make the reference alphabet fine enough for the classes of t
    pub fn align_to(&mut self, t: RegLan) {
        let mut pts = Vec::new();
        for cs in t.char_ranges() {
            let lo = cs.pick();
            pts.push(lo);
            pts.push(lo + (cs.size() - 1));
        }
        self.ctx.eng.ensure_points(&pts);
    }
}

pub fn ranges_of(t: RegLan) -> Vec<(u32, u32)> {
    t.char_ranges().map(|cs| (cs.pick(), cs.pick() + (cs.size() - 1))).collect()
}

/// the class of character c according to the interval list (by definition, linear scan)
pub fn class_by_scan(ranges: &[(u32, u32)], c: u32) -> Option<usize> {
    thread_local! {
        // (address, length, sorted and disjoint) of the list examined last: the test is linear, the lookups are many
        static LAST: std::cell::Cell<(usize, usize, u64, bool)> = const { std::cell::Cell::new((0, 0, 0, false)) };
    }
    let sorted = ranges.len() > 24
        && LAST.with(|l| {
            let mid = ranges[ranges.len() / 2];
            let key = (ranges.as_ptr() as usize, ranges.len(), ((ranges[0].0 as u64) << 40) ^ ((mid.0 as u64) << 20) ^ ranges[ranges.len() - 1].1 as u64);
            let (p, n, h, v) = l.get();
            if (p, n, h) == key {
                v
            } else {
                let v = ranges.windows(2).all(|w| w[0].1 < w[1].0);
                l.set((key.0, key.1, key.2, v));
                v
            }
        });
    if sorted {
        // long sorted lists (wide unions): the same answer by bisection
        let i = ranges.partition_point(|&(_, b)| b < c);
        return if i < ranges.len() && ranges[i].0 <= c { Some(i) } else { None };
    }
    ranges.iter().position(|&(a, b)| a <= c && c <= b)
}

pub const STD_WEIGHTS: [(Profile, u32); 5] = [(Profile::Boundary, 25), (Profile::Loops, 25), (Profile::Boolean, 20), (Profile::Patterns, 15), (Profile::Mixed, 15)];

/// generic driver: generate programs and hand them to `f` under a panic guard
pub fn for_programs(
    p: &Params,
    rep: &mut Report,
    stream: u64,
    nprog: u64,
    weights: &[(Profile, u32)],
    steps: (usize, usize),
    mut f: impl FnMut(&Program, u64, &mut Report),
) {
    let mut rng = p.rng(stream);
    for _ in 0..nprog {
        let prof = Profile::pick(&mut rng, weights);
        let n = steps.0 + rng.usize(steps.1 - steps.0 + 1);
        let prog = gen_program(&mut rng, prof, n);
        let seed = rng.next();
        rep.hist("profiles", prof.name());
        rep.inc("programs");
        rep.sample(|| format!("[{}] {}", prof.name(), prog.to_text().replace('\n', "; ")));
        if std::env::var("SMTMON_TRACE").is_ok() {
            eprintln!("PROGRAM\n{}", prog.to_text());
        }
        let t0 = std::time::Instant::now();
        // programs with loop bounds beyond 2^20: closure enumerations are given up (the case skipped) after 50 ms
        let _restore = if prog.has_huge_bound() { Some(Restore(CLOSURE_MS.swap(50, std::sync::atomic::Ordering::Relaxed))) } else { None };
        let r = guard(|| f(&prog, seed, rep));
        let el = t0.elapsed().as_millis() as u64;
        rep.max("program_wall_ms", el);
        if el > 2000 {
            rep.inc("programs_slower_than_2s");
            if std::env::var("SMTMON_SLOW").is_ok() {
                eprintln!("SLOW {} ms:\n{}", el, prog.to_text());
            }
        }
        if let Err(msg) = r {
            if panic_in_harness(&msg) {
                rep.harness_error(format!("monitor panicked: {}", msg));
            } else {
                rep.violation("panic", "panic-unguarded", format!("crate panicked outside a guarded call: {}", msg), KIND_MGR, &prog.to_text(), seed);
            }
        }
    }
}

/// programs about the first / last character of the members (see gen::reprog::firstchar_program)
pub fn for_firstchar_programs(p: &Params, rep: &mut Report, count: u64, mut f: impl FnMut(&Program, u64, &mut Report)) {
    let mut rng = p.rng(0x4643);
    for _ in 0..count {
        // (every third one: an intersection of languages that are pairwise compatible but jointly empty)
        let prog = if rng.chance(1, 3) { joint_program(&mut rng) } else { firstchar_program(&mut rng) };
        let seed = rng.next();
        rep.inc("first_character_programs");
        if let Err(msg) = guard(|| f(&prog, seed, rep)) {
            if panic_in_harness(&msg) {
                rep.harness_error(format!("monitor panicked: {}", msg));
            } else {
                rep.violation("panic", "panic-unguarded", format!("crate panicked outside a guarded call: {}", msg), KIND_MGR, &prog.to_text(), seed);
            }
        }
    }
}

struct Restore(u64);
impl Drop for Restore {
    fn drop(&mut self) {
        CLOSURE_MS.store(self.0, std::sync::atomic::Ordering::Relaxed);
    }
}

/// short programs around loops with upper bounds next to u32::MAX, each handed to `f` under a panic guard
pub fn for_max_loop_programs(p: &Params, rep: &mut Report, count: u64, mut f: impl FnMut(&Program, u64, &mut Report)) {
    let mut rng = p.rng(0x4D41);
    // nearly every term of these programs has an astronomically large closure: a closure enumeration is given up
    // (the case skipped) after 50 ms instead of the usual budget
    let usual = CLOSURE_MS.swap(50, std::sync::atomic::Ordering::Relaxed);
    let _restore = Restore(usual);
    for _ in 0..count {
        let prog = max_loop_program(&mut rng);
        let seed = rng.next();
        rep.inc("max_bound_loop_programs");
        if let Err(msg) = guard(|| f(&prog, seed, rep)) {
            if panic_in_harness(&msg) {
                rep.harness_error(format!("monitor panicked: {}", msg));
            } else {
                rep.violation("panic", "panic-unguarded", format!("crate panicked outside a guarded call: {}", msg), KIND_MGR, &prog.to_text(), seed);
            }
        }
    }
}

pub fn replay_program(text: &str, rep: &mut Report, f: impl FnOnce(&Program, &mut Report)) -> bool {
    match Program::from_text(text) {
        Ok(p) => f(&p, rep),
        Err(e) => rep.harness_error(format!("cannot parse case: {}", e)),
    }
    true
}

/// exhaustive tiny programs (sharded) + sampled pair programs, each handed to `f` under a panic guard
pub fn for_tiny_programs(p: &Params, rep: &mut Report, stride: usize, pairs: u64, mut f: impl FnMut(&Program, u64, &mut Report)) {
    let total = tiny_count();
    let mut idx = p.shard as usize;
    let step = p.nshards as usize * stride.max(1);
    let mut rng = p.rng(0x71);
    // with stride > 1 the offset rotates with the seed so that different seeds cover different residues
    if stride > 1 {
        idx += (p.seed as usize % stride) * p.nshards as usize;
    }
    let mut n = 0u64;
    while idx < total {
        let prog = tiny_program(idx);
        let seed = rng.next();
        n += 1;
        if let Err(msg) = guard(|| f(&prog, seed, rep)) {
            if panic_in_harness(&msg) {
                rep.harness_error(format!("monitor panicked: {}", msg));
            } else {
                rep.violation("panic", "panic-unguarded", format!("crate panicked outside a guarded call: {}", msg), KIND_MGR, &prog.to_text(), seed);
            }
        }
        idx += step;
    }
    for _ in 0..pairs {
        let prog = tiny_pair_program(&mut rng);
        let seed = rng.next();
        n += 1;
        if let Err(msg) = guard(|| f(&prog, seed, rep)) {
            if panic_in_harness(&msg) {
                rep.harness_error(format!("monitor panicked: {}", msg));
            } else {
                rep.violation("panic", "panic-unguarded", format!("crate panicked outside a guarded call: {}", msg), KIND_MGR, &prog.to_text(), seed);
            }
        }
    }
    rep.count("tiny_programs", n);
    rep.count("tiny_program_space", if stride <= 1 { total as u64 / p.nshards.max(1) } else { 0 });
}
