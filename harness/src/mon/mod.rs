pub mod rectx;
pub mod c01;

use crate::util::*;

pub fn run(p: &Params, rep: &mut Report) -> bool {
    match p.prop.as_str() {
        "C01" => c01::run(p, rep),
        _ => return false,
    }
    true
}

pub fn replay(prop: &str, kind: &str, text: &str, seed: u64, rep: &mut Report) -> bool {
    match prop {
        "C01" => c01::replay(kind, text, seed, rep),
        _ => false,
    }
}
