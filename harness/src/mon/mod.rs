pub mod autoutil;
pub mod deep;
pub mod ladder;
pub mod rectx;
pub mod scale;
pub mod selftest;
pub mod c01;
pub mod c02;
pub mod c03;
pub mod c05;
pub mod c18;
pub mod c19;
pub mod c07;
pub mod c10;
pub mod c16;
pub mod c04;
pub mod c14;
pub mod c13;
pub mod c11;
pub mod c12;
pub mod c20;
pub mod c06;
pub mod c08;
pub mod c09;
pub mod c15;
pub mod c17;

use crate::util::*;

/// run the monitors of one property; a crate panic that escapes every inner guard is an observation too
pub fn run(p: &Params, rep: &mut Report) -> bool {
    let mut known = true;
    let r = guard(|| {
        known = run_inner(p, rep);
    });
    if let Err(msg) = r {
        if panic_in_harness(&msg) {
            rep.harness_error(format!("monitor panicked: {}", msg));
        } else {
            rep.violation("panic", "panic-unguarded", format!("the crate panicked on well-formed input while the workload of {} was running: {}", p.prop, msg), "shard", &format!("shard {} of {} seed {}", p.shard, p.nshards, p.seed), p.seed);
        }
    }
    known
}

fn run_inner(p: &Params, rep: &mut Report) -> bool {
    rectx::CLOSURE_MS.store(if p.thorough { 2000 } else { 400 }, std::sync::atomic::Ordering::Relaxed);
    match p.prop.as_str() {
        "C01" => c01::run(p, rep),
        "C02" => c02::run(p, rep),
        "C03" => c03::run(p, rep),
        "C05" => c05::run(p, rep),
        "C18" => c18::run(p, rep),
        "C19" => c19::run(p, rep),
        "C07" => c07::run(p, rep),
        "C10" => c10::run(p, rep),
        "C16" => c16::run(p, rep),
        "C04" => c04::run(p, rep),
        "C14" => c14::run(p, rep),
        "C13" => c13::run(p, rep),
        "C11" => c11::run(p, rep),
        "C12" => c12::run(p, rep),
        "C20" => c20::run(p, rep),
        "C06" => c06::run(p, rep),
        "C08" => c08::run(p, rep),
        "C09" => c09::run(p, rep),
        "C15" => c15::run(p, rep),
        "C17" => c17::run(p, rep),
        _ => return false,
    }
    true
}

pub fn replay(prop: &str, kind: &str, text: &str, seed: u64, rep: &mut Report) -> bool {
    if replay_one(prop, kind, text, seed, rep) {
        return true;
    }
    // a case kind borrowed from another monitor (e.g. a partition case recorded by C14)
    for other in ["C01", "C02", "C03", "C04", "C05", "C06", "C07", "C08", "C09", "C10", "C11", "C12", "C13", "C14", "C15", "C16", "C17", "C18", "C19", "C20"] {
        if other != prop && replay_one(other, kind, text, seed, rep) {
            return true;
        }
    }
    false
}

fn replay_one(prop: &str, kind: &str, text: &str, seed: u64, rep: &mut Report) -> bool {
    if kind == "deep" {
        let mut it = text.split_whitespace();
        if let (Some(k), Some(n)) = (it.next(), it.next().and_then(|x| x.parse::<usize>().ok())) {
            let expect = match k {
                "auto-chain" => deep::expect_auto_chain(n),
                "re-chain" => "ok".to_string(),
                _ => deep::expect_re_literal(n),
            };
            deep::probe(rep, k, n, &expect, "replay", seed);
            return true;
        }
        return false;
    }
    if kind == "ladder" {
        return ladder::replay(text, seed, rep);
    }
    if kind == "shard" {
        // "shard K of N seed S": re-run that whole shard (quick tier)
        let nums: Vec<u64> = text.split_whitespace().filter_map(|t| t.parse().ok()).collect();
        if nums.len() == 3 {
            let p = Params { prop: prop.to_string(), seed: nums[2], shard: nums[0], nshards: nums[1], thorough: false, profile: String::new(), scale: 100 };
            return run(&p, rep);
        }
        return false;
    }
    match prop {
        "C01" => c01::replay(kind, text, seed, rep),
        "C02" => c02::replay(kind, text, seed, rep),
        "C03" => c03::replay(kind, text, seed, rep),
        "C05" => c05::replay(kind, text, seed, rep),
        "C18" => c18::replay(kind, text, seed, rep),
        "C19" => c19::replay(kind, text, seed, rep),
        "C07" => c07::replay(kind, text, seed, rep),
        "C10" => c10::replay(kind, text, seed, rep),
        "C16" => c16::replay(kind, text, seed, rep),
        "C04" => c04::replay(kind, text, seed, rep),
        "C14" => c14::replay(kind, text, seed, rep),
        "C13" => c13::replay(kind, text, seed, rep),
        "C11" => c11::replay(kind, text, seed, rep),
        "C12" => c12::replay(kind, text, seed, rep),
        "C20" => c20::replay(kind, text, seed, rep),
        "C06" => c06::replay(kind, text, seed, rep),
        "C08" => c08::replay(kind, text, seed, rep),
        "C09" => c09::replay(kind, text, seed, rep),
        "C15" => c15::replay(kind, text, seed, rep),
        "C17" => c17::replay(kind, text, seed, rep),
        _ => false,
    }
}
