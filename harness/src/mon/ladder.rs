//! Threshold ladders: the same simple question asked again after a number of intervening operations that is
//! next to a power of two (2^8, 2^16), and simple families whose size parameter (operands, classes, letters,
//! characters) is next to 2^10 or 2^16. All expectations are analytic (no reference DFA).

use crate::util::*;
use aws_smt_strings::regular_expressions::{ReManager, RegLan};
use aws_smt_strings::smt_strings::SmtString;

fn viol(rep: &mut Report, rule: &str, what: &str, detail: String, seed: u64, case: &str) {
    rep.violation(rule, &format!("{}:{}", rule, what), detail, "ladder", case, seed);
}

#[derive(Clone, Copy, PartialEq, Debug)]
pub enum Trav {
    Empty,
    GetString,
    Iter,
    Compile,
    StartChar,
}

impl Trav {
    pub fn name(self) -> &'static str {
        match self {
            Trav::Empty => "is_empty_re",
            Trav::GetString => "get_string",
            Trav::Iter => "iter_derivatives",
            Trav::Compile => "compile",
            Trav::StartChar => "start_char",
        }
    }
    pub fn from_name(s: &str) -> Option<Trav> {
        [Trav::Empty, Trav::GetString, Trav::Iter, Trav::Compile, Trav::StartChar].into_iter().find(|t| t.name() == s)
    }
}

/// One manager; M query terms (three-letter words over private letters, so that their derivatives are shared with
/// nothing else); each is queried once, then again after exactly `gap` other explorations of the same manager,
/// for every gap in [centre - M/2, centre + M/2). The second answer must be the first one (and the analytic one).
pub fn traversal_gap(rep: &mut Report, kind: Trav, centre: u32, seed: u64) {
    const M: u32 = 24;
    let case = format!("traversal {} {}", kind.name(), centre);
    let mut m = ReManager::new();
    let word = |j: u32| -> Vec<u32> { vec![0x3000 + 3 * j, 0x3001 + 3 * j, 0x3002 + 3 * j] };
    let mut terms: Vec<RegLan> = Vec::new();
    for j in 0..M {
        let w = word(j);
        let t = m.str(&SmtString::from(&w[..]));
        let t = if kind == Trav::StartChar {
            // (w + x) & (w . Sigma*): start_char has to decide the emptiness of a derivative
            let x = m.char('x' as u32);
            let u = m.union(t, x);
            let f = m.full();
            let wf = m.concat(t, f);
            m.inter(u, wf)
        } else {
            t
        };
        terms.push(t);
    }
    let filler = m.char('x' as u32);
    // the observation; Err(text) describes a wrong answer
    let mut ask = |m: &mut ReManager, j: u32| -> Result<String, String> {
        let t = terms[j as usize];
        let w = word(j);
        match kind {
            Trav::Empty => {
                let e = m.is_empty_re(t);
                if e {
                    Err(format!("is_empty_re(\"{}\") = true", show_str(&w)))
                } else {
                    Ok("false".into())
                }
            }
            Trav::GetString => match m.get_string(t) {
                Some(s) if s.as_ref() == &w[..] => Ok("the word".into()),
                other => Err(format!("get_string(\"{}\") = {:?}", show_str(&w), other.map(|s| s.to_string()))),
            },
            Trav::Iter => {
                let n = m.iter_derivatives(t).count();
                // w, two suffixes, epsilon, empty
                if n == 5 {
                    Ok("5".into())
                } else {
                    Err(format!("iter_derivatives(\"{}\") yields {} terms, the closure has 5", show_str(&w), n))
                }
            }
            Trav::Compile => {
                let a = m.compile(t);
                let ok = a.num_states() == 5 && a.accepts(&SmtString::from(&w[..])) && !a.accepts(&SmtString::from(&w[..2]));
                let t5 = m.try_compile(t, 5).is_some();
                let t4 = m.try_compile(t, 4).is_some();
                if ok && t5 && !t4 {
                    Ok("5 states".into())
                } else {
                    Err(format!("compile(\"{}\") has {} states (5 expected), accepts the word = {}; try_compile with bound 5 succeeds = {}, with bound 4 = {}", show_str(&w), a.num_states(), a.accepts(&SmtString::from(&w[..])), t5, t4))
                }
            }
            Trav::StartChar => {
                let (a, b) = (m.start_char(t, w[0]), m.start_char(t, w[1]));
                if a && !b {
                    Ok("true/false".into())
                } else {
                    Err(format!("start_char((\"{0}\" + x) & \"{0}\".Sigma*, first letter) = {1}, (.., second letter) = {2}; expected true, false", show_str(&w), a, b))
                }
            }
        }
    };
    let mut fill = |m: &mut ReManager| match kind {
        Trav::Iter => {
            let _ = m.iter_derivatives(filler).count();
        }
        _ => {
            let _ = m.is_empty_re(filler);
        }
    };
    // first visits at times 1..=M, revisit of term j at time (j + 1) + gap_j with gap_j = centre - M/2 + j
    let r = guard(|| {
        let mut clock: u64 = 0;
        let mut first: Vec<Result<String, String>> = Vec::new();
        for j in 0..M {
            first.push(ask(&mut m, j));
            clock += 1;
        }
        let mut out: Vec<(u32, u64, Result<String, String>)> = Vec::new();
        for j in 0..M {
            let gap = (centre - M / 2 + j) as u64;
            let due = (j as u64 + 1) + gap;
            while clock + 1 < due {
                fill(&mut m);
                clock += 1;
            }
            out.push((j, gap, ask(&mut m, j)));
            clock += 1;
        }
        (first, out)
    });
    match r {
        Ok((first, out)) => {
            for (j, f) in first.iter().enumerate() {
                if let Err(e) = f {
                    viol(rep, "history", kind.name(), format!("first query on a fresh manager: {} (term {})", e, j), seed, &case);
                    return;
                }
            }
            for (j, gap, a) in out {
                rep.inc("queries_repeated_after_a_gap_next_to_a_power_of_two");
                rep.hist("traversal_gaps_observed", &format!("{}:{}", kind.name(), if gap < 1000 { "2^8 +- 12" } else { "2^16 +- 12" }));
                if let Err(e) = a {
                    viol(rep, "history", kind.name(), format!("asked again after {} other explorations on the same manager: {} (the first answer was correct)", gap, e), seed, &case);
                    return;
                }
                let _ = j;
            }
        }
        Err(msg) => viol(rep, "history", "panic", format!("{} after many explorations on one manager panicked: {}", kind.name(), msg), seed, &case),
    }
}

// ------------------------------------------------------------------ wide unions (operand / class counts next to 2^10)

fn sw(w: &[u32]) -> SmtString {
    SmtString::from(w)
}

/// union of n two-letter words [F + k][L + k] (adjacent leading characters, pairwise different continuations),
/// observed as `prop` needs; n is above 2^10 so that every operand- or class-count threshold up to there is crossed
pub fn wide_union(rep: &mut Report, prop: &str, n: u32, seed: u64) {
    wide_union_from(rep, prop, n, 1000, seed)
}

/// the same with the first letters starting at code point `f0` (0: class index = code point)
#[allow(non_snake_case)]
pub fn wide_union_from(rep: &mut Report, prop: &str, n: u32, f0: u32, seed: u64) {
    let F: u32 = f0;
    const L: u32 = 50_000;
    let case = format!("wide-union {} {} {}", prop, n, f0);
    let r = guard(|| -> Result<(), String> {
        let mut m = ReManager::new();
        let mut ops: Vec<RegLan> = Vec::new();
        for k in crate::gen::reprog::wide_order(n) {
            let (a, b) = (m.char(F + k), m.char(L + k));
            ops.push(m.concat(a, b));
        }
        let e = m.union_list(ops.iter().copied());
        rep.inc("wide_unions_built");
        rep.max("wide_union_operands", n as u64);
        let member = |k: u32| vec![F + k, L + k];
        let near = |k: u32| vec![F + k, L + (k + 1) % n];
        match prop {
            "C01" => {
                let ne = m.complement(e);
                // the intersection of the complements of the operands: a second >2^10-ary operator with the complement language
                let cs: Vec<RegLan> = ops.iter().map(|&o| m.complement(o)).collect();
                let ie = m.inter_list(cs.into_iter());
                if e.nullable || !ne.nullable || !ie.nullable {
                    return Err(format!("nullable flags of the union / its complement / the intersection of complements: {} {} {}, expected false true true", e.nullable, ne.nullable, ie.nullable));
                }
                for k in 0..n {
                    rep.count("wide_membership_answers", 6);
                    for (w, want) in [(member(k), true), (near(k), false)] {
                        let s = sw(&w);
                        let (a, b, c) = (m.str_in_re(&s, e), m.str_in_re(&s, ne), m.str_in_re(&s, ie));
                        if a != want || b == want || c == want {
                            return Err(format!("union of {} two-letter words [{}+k][{}+k]: str_in_re({}) = {} (expected {}), in the complement = {}, in the intersection of the operands' complements = {}", n, F, L, show_str(&w), a, want, b, c));
                        }
                    }
                }
                for w in [vec![], vec![F], vec![F, L, L], vec![F + n, L + n], vec![(F + n + 1).min(0x2FFFF), L]] {
                    if m.str_in_re(&sw(&w), e) {
                        return Err(format!("union of {} two-letter words accepts {}", n, show_str(&w)));
                    }
                }
            }
            "C03" => {
                let ranges = super::rectx::ranges_of(e);
                for k in 0..n {
                    rep.inc("wide_derivatives_checked");
                    let d = m.char_derivative(e, F + k);
                    let ok = !d.nullable && m.str_in_re(&sw(&[L + k]), d) && !m.str_in_re(&sw(&[L + (k + 1) % n]), d) && !m.str_in_re(&sw(&[L + k, L + k]), d);
                    if !ok {
                        return Err(format!("union of {} two-letter words [{}+k][{}+k]: char_derivative by {:x} is {} which is not the one-letter language of {:x}", n, F, L, F + k, d, L + k));
                    }
                    let cid = match super::rectx::class_by_scan(&ranges, F + k) {
                        Some(i) => aws_smt_strings::character_sets::ClassId::Interval(i),
                        None => aws_smt_strings::character_sets::ClassId::Complement,
                    };
                    let cd = m.class_derivative(e, cid).map_err(|x| format!("class_derivative rejects the class of {:x}: {}", F + k, x))?;
                    let sd = m.set_derivative(e, &aws_smt_strings::character_sets::CharSet::singleton(F + k)).map_err(|x| format!("set_derivative rejects the singleton {:x}: {}", F + k, x))?;
                    if !std::ptr::eq(cd, d) || !std::ptr::eq(sd, d) {
                        return Err(format!("union of {} two-letter words: char_derivative, class_derivative and set_derivative disagree for character {:x} ({} / {} / {})", n, F + k, d, cd, sd));
                    }
                }
                let d = m.char_derivative(e, F + n);
                if !m.is_empty_re(d) {
                    return Err(format!("char_derivative by the uncovered character {:x} is {}", F + n, d));
                }
            }
            "C02" | "C19" => {
                let count = m.iter_derivatives(e).count();
                let want = n as usize + 3; // e, n one-letter languages, epsilon, empty
                let auto = m.compile(e);
                rep.inc("wide_automata_compiled");
                if count != want || auto.num_states() != want {
                    return Err(format!("union of {} two-letter words with pairwise different continuations: iter_derivatives yields {} terms, compile gives {} states, the closure has {}", n, count, auto.num_states(), want));
                }
                let (t_ok, t_less) = (m.try_compile(e, want).is_some(), m.try_compile(e, want - 1).is_some());
                if !t_ok || t_less {
                    return Err(format!("try_compile with bound {} succeeds = {}, with bound {} = {}", want, t_ok, want - 1, t_less));
                }
                for k in 0..n {
                    rep.count("wide_membership_answers", 2);
                    if !auto.accepts(&sw(&member(k))) || auto.accepts(&sw(&near(k))) {
                        return Err(format!("automaton compiled from the union of {} two-letter words: accepts({}) = {}, accepts({}) = {}", n, show_str(&member(k)), auto.accepts(&sw(&member(k))), show_str(&near(k)), auto.accepts(&sw(&near(k)))));
                    }
                }
            }
            "C07" => {
                let e2 = m.union_list(ops.iter().copied());
                if !std::ptr::eq(e, e2) || e != e2 {
                    return Err(format!("union_list over the same {} operands in the same order returns a different term the second time", n));
                }
                let e3 = m.union_list(ops.iter().rev().copied());
                for k in 0..n {
                    if !m.str_in_re(&sw(&member(k)), e3) || m.str_in_re(&sw(&near(k)), e3) {
                        return Err(format!("union_list over the {} operands in reverse order: wrong membership for k = {}", n, k));
                    }
                }
                let ne = m.complement(e);
                if !std::ptr::eq(m.complement(ne), e) || std::ptr::eq(ne, e) {
                    return Err("complement is not an involution on the wide union".into());
                }
            }
            _ => {}
        }
        Ok(())
    });
    match r {
        Ok(Ok(())) => {}
        Ok(Err(e)) => viol(rep, "wide", prop, e, seed, &case),
        Err(msg) => viol(rep, "wide", "panic", format!("panicked on a union of {} operands: {}", n, msg), seed, &case),
    }
}

/// many operands AND long words: the union over k < n of f_k . x^len . l_k (first and last letters all different)
pub fn wide_long_words(rep: &mut Report, n: u32, len: u32, seed: u64) {
    const F: u32 = 2000;
    const L: u32 = 60_000;
    let case = format!("wide-long {} {}", n, len);
    let r = guard(|| -> Result<(), String> {
        let mut m = ReManager::new();
        let x = m.char(0x78);
        let xs = m.exp(x, len);
        let mut ops: Vec<RegLan> = Vec::new();
        for k in crate::gen::reprog::wide_order(n) {
            let (a, b) = (m.char(F + k), m.char(L + k));
            ops.push(m.concat_list([a, xs, b].into_iter()));
        }
        let e = m.union_list(ops.iter().copied());
        rep.inc("wide_unions_of_long_words_built");
        let word = |k: u32, l: u32, j: u32| -> Vec<u32> { std::iter::once(F + k).chain(std::iter::repeat(0x78).take(l as usize)).chain(std::iter::once(L + j)).collect() };
        let ks: Vec<u32> = (0..n).filter(|k| k % 7 == 0 || k + 3 >= n || *k < 3).collect();
        for &k in &ks {
            rep.count("wide_membership_answers", 4);
            for (w, want) in [(word(k, len, k), true), (word(k, len, (k + 1) % n), false), (word(k, len - 1, k), false), (word(k, len + 1, k), false)] {
                let got = m.str_in_re(&sw(&w), e);
                if got != want {
                    return Err(format!("union over k < {} of f_k . x^{} . l_k: str_in_re(f_{} x^{} l_{}) = {}, expected {}", n, len, k, w.len() - 2, w[w.len() - 1] - L, got, want));
                }
            }
        }
        if m.is_empty_re(e) {
            return Err("is_empty_re of the union of long words is true".into());
        }
        Ok(())
    });
    match r {
        Ok(Ok(())) => {}
        Ok(Err(e)) => viol(rep, "wide", "long-words", e, seed, &case),
        Err(msg) => viol(rep, "wide", "panic", format!("panicked on a union of {} words of {} characters: {}", n, len, msg), seed, &case),
    }
}

/// balanced tree of (r1 + r2)? over n alternatives c_i . tail(i): n derivative classes in ONE term, five
/// derivatives in all ({""} + {c_i x | i < 2^16} + {c_i y | i >= 2^16})
pub fn wide_tree(rep: &mut Report, prop: &str, n: u32, seed: u64) {
    let case = format!("wide-tree {} {}", prop, n);
    fn tail(i: u32) -> u32 {
        if (i >> 16) & 1 == 0 {
            'x' as u32
        } else {
            'y' as u32
        }
    }
    fn build(m: &mut ReManager, lo: u32, hi: u32) -> RegLan {
        if hi - lo == 1 {
            let (h, t) = (m.char(lo), m.char(tail(lo)));
            m.concat(h, t)
        } else {
            let mid = lo + (hi - lo) / 2;
            let (l, r) = (build(m, lo, mid), build(m, mid, hi));
            let u = m.union(l, r);
            m.opt(u)
        }
    }
    let r = guard(|| -> Result<(), String> {
        let mut m = ReManager::new();
        let e = build(&mut m, 0, n);
        rep.inc("wide_trees_built");
        rep.max("classes_of_one_term", e.num_deriv_classes() as u64);
        let ks: Vec<u32> = {
            let mut v = vec![0, 1, 2, n - 2, n - 1];
            let mut p = 8u32;
            while p < n {
                v.extend_from_slice(&[p - 1, p, p + 1]);
                p *= 2;
            }
            v.retain(|&k| k < n);
            v
        };
        let other = |t: u32| if t == 'x' as u32 { 'y' as u32 } else { 'x' as u32 };
        match prop {
            "C02" => {
                let auto = m.compile(e);
                if auto.num_states() != 5 {
                    return Err(format!("tree over {} alternatives: compile gives {} states, the closure is e, 'x', 'y', epsilon, empty", n, auto.num_states()));
                }
                for &k in &ks {
                    rep.count("wide_membership_answers", 2);
                    let (good, bad) = (vec![k, tail(k)], vec![k, other(tail(k))]);
                    if !auto.accepts(&sw(&good)) || auto.accepts(&sw(&bad)) {
                        return Err(format!("automaton compiled from the tree over {} alternatives: accepts({}) = {}, accepts({}) = {}", n, show_str(&good), auto.accepts(&sw(&good)), show_str(&bad), auto.accepts(&sw(&bad))));
                    }
                }
                if !auto.accepts(&sw(&[])) || auto.accepts(&sw(&[n, tail(n)])) {
                    return Err("automaton of the tree: wrong answer on the empty word or on the first uncovered character".into());
                }
            }
            _ => {
                // C01 / C03: membership and derivatives by the characters whose class index is next to a power of two,
                // asked in both orders (a cache keyed on a truncated class index would answer the second from the first)
                for pass in 0..2 {
                    let order: Vec<u32> = if pass == 0 { ks.clone() } else { ks.iter().rev().copied().collect() };
                    for &k in &order {
                        rep.count("wide_membership_answers", 2);
                        let (good, bad) = (vec![k, tail(k)], vec![k, other(tail(k))]);
                        let d = m.char_derivative(e, k);
                        let dl = m.str_in_re(&sw(&[tail(k)]), d) && !m.str_in_re(&sw(&[other(tail(k))]), d);
                        let (a, b) = (m.str_in_re(&sw(&good), e), m.str_in_re(&sw(&bad), e));
                        if !a || b || !dl {
                            return Err(format!("tree over {} alternatives: str_in_re({}) = {}, str_in_re({}) = {}, char_derivative by {:x} = {}", n, show_str(&good), a, show_str(&bad), b, k, d));
                        }
                    }
                }
            }
        }
        Ok(())
    });
    match r {
        Ok(Ok(())) => {}
        Ok(Err(e)) => viol(rep, "wide", prop, e, seed, &case),
        Err(msg) => viol(rep, "wide", "panic", format!("panicked on a tree over {} alternatives: {}", n, msg), seed, &case),
    }
}

// ------------------------------------------------------------------ one query that creates more than 2^20 terms

/// On the thread-local manager of a fresh thread: terms obtained BEFORE a membership query that creates ~2n new
/// terms must still be the very objects the same constructors return AFTER it, and must combine correctly with
/// terms created after it.
pub fn big_wrapper_query(rep: &mut Report, n: u32, seed: u64) {
    use aws_smt_strings::smt_regular_expressions as w;
    let case = format!("big-query {}", n);
    let h = std::thread::Builder::new().stack_size(64 << 20).spawn(move || {
        guard(|| -> Result<u64, String> {
            let s = |v: &[u32]| SmtString::from(v);
            let a = w::str_to_re(&s(&[0x61]));
            let c = w::str_to_re(&s(&[0x63]));
            let ac = w::re_union(a, c);
            let before = w::verif_with_manager(|m| m.verif_terms().len());
            let big = w::re_power(a, n);
            let subject: Vec<u32> = vec![0x61; n as usize];
            if !w::str_in_re(&s(&subject), big) {
                return Err(format!("str_in_re(a^{0}, re_power(a, {0})) = false", n));
            }
            let after = w::verif_with_manager(|m| m.verif_terms().len());
            let a2 = w::str_to_re(&s(&[0x61]));
            let ac2 = w::re_union(a, c);
            if !std::ptr::eq(a, a2) || !std::ptr::eq(ac, ac2) {
                return Err(format!("after one str_in_re query that created {} terms, str_to_re(\"a\") / re_union(a, c) no longer return the terms they returned before it", after - before));
            }
            let b = w::str_to_re(&s(&[0x62]));
            if b == a || a.verif_id() == b.verif_id() {
                return Err(format!("after a query that created {} terms, the new term \"b\" compares equal to (or shares its id with) the old term \"a\"", after - before));
            }
            let u = w::re_union(a, b);
            let (ia, ib, ic) = (w::str_in_re(&s(&[0x61]), u), w::str_in_re(&s(&[0x62]), u), w::str_in_re(&s(&[0x63]), u));
            if !ia || !ib || ic {
                return Err(format!("after a query that created {} terms: re_union(old \"a\", new \"b\") contains a = {}, b = {}, c = {} (expected true, true, false)", after - before, ia, ib, ic));
            }
            let i = w::re_inter(ac, w::re_comp(b));
            if !w::str_in_re(&s(&[0x63]), i) || w::str_in_re(&s(&[0x62]), i) {
                return Err("old and new terms do not combine correctly under re_inter / re_comp after the large query".into());
            }
            Ok((after - before) as u64)
        })
    });
    let r = match h {
        Ok(j) => j.join(),
        Err(_) => {
            rep.harness_error("cannot spawn thread".into());
            return;
        }
    };
    match r {
        Ok(Ok(Ok(created))) => {
            rep.inc("wrapper_queries_creating_more_than_a_million_terms");
            rep.max("terms_created_by_one_query", created);
            if created < (1 << 20) {
                rep.harness_error(format!("the large query created only {} terms", created));
            }
        }
        Ok(Ok(Err(e))) => viol(rep, "history", "big-query", e, seed, &case),
        Ok(Err(msg)) => viol(rep, "history", "big-query-panic", format!("panicked: {}", msg), seed, &case),
        Err(_) => rep.harness_error("big-query thread died".into()),
    }
}

// ------------------------------------------------------------------ partitions with (almost) as many classes as characters

/// Partitions whose number of intervals is the size of the alphabet (196608) or one less: built by push and by
/// try_from_iter, queried, and merged. Expected results are written down directly (singletons).
pub fn discrete_partitions(rep: &mut Report, prop: &str, seed: u64) {
    use aws_smt_strings::character_sets::*;
    const MAXC: u32 = 0x2FFFF;
    const N: usize = MAXC as usize + 1;
    let case = format!("discrete {}", prop);
    let ranges_of = |cp: &CharPartition| -> Vec<(u32, u32)> { cp.ranges().map(|s| (s.pick(), s.pick() + (s.size() - 1))).collect() };
    let singletons = |skip: Option<u32>| -> Vec<(u32, u32)> { (0..=MAXC).filter(|&c| Some(c) != skip).map(|c| (c, c)).collect() };
    let push_all = |v: &[(u32, u32)]| -> CharPartition {
        let mut cp = CharPartition::new();
        for &(a, b) in v {
            cp.push(a, b);
        }
        cp
    };
    let r = guard(|| -> Result<(), String> {
        let full = singletons(None);
        match prop {
            "C11" => {
                // push, all the way to the last character
                let cp = push_all(&full);
                rep.inc("discrete_partitions_built");
                if cp.len() != N || !cp.empty_complement() || cp.num_classes() != N || ranges_of(&cp) != full {
                    return Err(format!("the partition into {} singletons built by push has len {} / num_classes {} / empty_complement {}", N, cp.len(), cp.num_classes(), cp.empty_complement()));
                }
                if cp.valid_class_id(ClassId::Complement) || !cp.valid_class_id(ClassId::Interval(N - 1)) || cp.valid_class_id(ClassId::Interval(N)) || cp.class_ids().count() != N || cp.picks().count() != N {
                    return Err("class ids / picks of the partition into singletons do not describe exactly its 196608 classes".into());
                }
                for c in [0u32, 1, 0xFFFF, 0x10000, MAXC - 1, MAXC] {
                    rep.inc("discrete_partition_queries");
                    if cp.class_of_char(c) != ClassId::Interval(c as usize) || cp.interval_cover(&CharSet::singleton(c)) != CoverResult::CoveredBy(c as usize) {
                        return Err(format!("the partition into singletons puts character {:x} into {:?}", c, cp.class_of_char(c)));
                    }
                    if c < MAXC && cp.interval_cover(&CharSet::range(c, c + 1)) != CoverResult::Overlaps {
                        return Err(format!("interval_cover([{:x},{:x}]) on the partition into singletons is not Overlaps", c, c + 1));
                    }
                }
                // try_from_iter on all the singletons, scrambled: pairwise disjoint, so it must succeed and give the same partition
                let order = crate::gen::reprog::wide_order(N as u32);
                let t = CharPartition::try_from_iter(order.iter().map(|&c| CharSet::singleton(c))).map_err(|e| format!("try_from_iter rejects the {} pairwise disjoint singletons: {}", N, e))?;
                if !super::c11::same_partition(&t, &cp) {
                    return Err("try_from_iter on all singletons (scrambled order) gives a different partition than push".into());
                }
                // one less: the last two characters in one class
                let mut almost = singletons(None);
                almost.truncate(N - 2);
                almost.push((MAXC - 1, MAXC));
                let t2 = CharPartition::try_from_iter(almost.iter().rev().map(|&(a, b)| CharSet::range(a, b))).map_err(|e| format!("try_from_iter rejects {} pairwise disjoint sets: {}", N - 1, e))?;
                if ranges_of(&t2) != almost || !t2.empty_complement() || t2.class_of_char(MAXC) != ClassId::Interval(N - 2) {
                    return Err(format!("try_from_iter on {} sets (the last one [MAX-1, MAX]) gives a wrong partition", N - 1));
                }
                // one more than the alphabet has characters cannot be disjoint
                let dup = CharPartition::try_from_iter((0..=MAXC).chain(std::iter::once(7)).map(CharSet::singleton));
                if dup.is_ok() {
                    return Err("try_from_iter accepts all singletons plus a repeated one".into());
                }
                // all but one character: the complementary class is that character
                let gap = 0x61u32;
                let cg = push_all(&singletons(Some(gap)));
                if cg.len() != N - 1 || cg.empty_complement() || cg.pick_complement() != gap || cg.class_of_char(gap) != ClassId::Complement || cg.num_classes() != N {
                    return Err(format!("the partition into all singletons but {:x}: len {}, empty_complement {}, witness {:x}", gap, cg.len(), cg.empty_complement(), cg.pick_complement()));
                }
            }
            _ => {
                let evens: Vec<(u32, u32)> = (0..=MAXC).filter(|c| c % 2 == 0).map(|c| (c, c)).collect();
                let odds: Vec<(u32, u32)> = (0..=MAXC).filter(|c| c % 2 == 1).map(|c| (c, c)).collect();
                let (pe, po) = (push_all(&evens), push_all(&odds));
                let m = merge_partitions(&pe, &po);
                rep.inc("discrete_partitions_merged");
                if ranges_of(&m) != full || !m.empty_complement() {
                    return Err(format!("merge_partitions(even singletons, odd singletons) has {} intervals, empty_complement = {}; the refinement is the {} singletons", m.len(), m.empty_complement(), N));
                }
                // the last two characters together, refined by a partition that separates them, in both orders
                let mut almost = singletons(None);
                almost.truncate(N - 2);
                almost.push((MAXC - 1, MAXC));
                let (pa, plast) = (push_all(&almost), push_all(&[(MAXC, MAXC)]));
                for (name, list) in [("[p, q]", vec![&pa, &plast]), ("[q, p]", vec![&plast, &pa]), ("[p, q, q]", vec![&pa, &plast, &plast])] {
                    let m = merge_partition_list(list.into_iter());
                    rep.inc("discrete_partitions_merged");
                    if ranges_of(&m) != full || !m.empty_complement() {
                        return Err(format!("merge_partition_list({}) with p = singletons up to MAX-2 plus [MAX-1,MAX] and q = {{[MAX,MAX]}} has {} intervals (class of MAX-1: {:?}, of MAX: {:?}); the refinement separates MAX-1 from MAX", name, m.len(), m.class_of_char(MAXC - 1), m.class_of_char(MAXC)));
                    }
                }
                // every character but one a singleton, refined by a two-character interval over the gap
                let gap = 0x61u32;
                let (pg, pq) = (push_all(&singletons(Some(gap))), push_all(&[(gap, gap + 1)]));
                for (name, list) in [("[p, q]", vec![&pg, &pq]), ("[q, p]", vec![&pq, &pg])] {
                    let m = merge_partition_list(list.into_iter());
                    rep.inc("discrete_partitions_merged");
                    if ranges_of(&m) != full || !m.empty_complement() || m.class_of_char(gap) != ClassId::Interval(gap as usize) {
                        return Err(format!("merge_partition_list({}) with p = all singletons but 'a' and q = {{[a,b]}}: {} intervals, empty_complement = {}, class of 'a' = {:?}; the refinement is the {} singletons", name, m.len(), m.empty_complement(), m.class_of_char(gap), N));
                    }
                }
                // neutral element and idempotence at full size
                let e = CharPartition::new();
                let m = merge_partition_list([&e, &pa, &e, &pa].into_iter());
                if ranges_of(&m) != almost {
                    return Err("merge_partition_list([empty, p, empty, p]) is not p for a partition of 196607 intervals".into());
                }
            }
        }
        Ok(())
    });
    match r {
        Ok(Ok(())) => {}
        Ok(Err(e)) => viol(rep, "discrete", prop, e, seed, &case),
        Err(msg) => viol(rep, "discrete", "panic", format!("panicked on a partition with as many classes as characters: {}", msg), seed, &case),
    }
}

// ------------------------------------------------------------------ fixed powers of character ranges (C16)

#[derive(Clone, Debug, PartialEq)]
pub struct Powers {
    pub lead_star: bool,
    /// runs (lo, hi, count): count copies of the range [lo, hi]
    pub runs: Vec<(u32, u32, u32)>,
    pub trail_star: bool,
}

impl Powers {
    pub fn len(&self) -> u64 {
        self.runs.iter().map(|r| r.2 as u64).sum()
    }
    pub fn to_text(&self) -> String {
        let mut o = String::new();
        if self.lead_star {
            o.push_str("* ");
        }
        for r in &self.runs {
            o.push_str(&format!("{:x}-{:x}^{} ", r.0, r.1, r.2));
        }
        if self.trail_star {
            o.push('*');
        }
        o.trim().to_string()
    }
    pub fn from_text(t: &str) -> Option<Powers> {
        let mut p = Powers { lead_star: false, runs: vec![], trail_star: false };
        for tk in t.split_whitespace() {
            if tk == "*" {
                if p.runs.is_empty() {
                    p.lead_star = true;
                } else {
                    p.trail_star = true;
                }
            } else {
                let (rg, k) = tk.split_once('^')?;
                let (a, b) = rg.split_once('-')?;
                p.runs.push((u32::from_str_radix(a, 16).ok()?, u32::from_str_radix(b, 16).ok()?, k.parse().ok()?));
            }
        }
        Some(p)
    }
    pub fn build(&self, m: &mut ReManager) -> RegLan {
        let mut items: Vec<RegLan> = Vec::new();
        if self.lead_star {
            items.push(m.full());
        }
        for &(a, b, k) in &self.runs {
            let r = m.range(a, b);
            items.push(m.exp(r, k));
        }
        if self.trail_star {
            items.push(m.full());
        }
        m.concat_list(items.into_iter())
    }
    /// position-wise ranges of the runs from position `from`, `n` positions, as runs again
    fn window(&self, from: u64, n: u64) -> Vec<(u32, u32, u64)> {
        let mut out = Vec::new();
        let (mut pos, end) = (0u64, from + n);
        for &(a, b, k) in &self.runs {
            let (s, e) = (pos.max(from), (pos + k as u64).min(end));
            if s < e {
                out.push((a, b, e - s));
            }
            pos += k as u64;
        }
        out
    }
}

/// every position of x (runs) is a sub-range of the same position of y (runs); equal total length assumed
fn positionwise_included(x: &[(u32, u32, u64)], y: &[(u32, u32, u64)]) -> bool {
    let (mut i, mut j) = (0usize, 0usize);
    let (mut ri, mut rj) = (x.first().map_or(0, |r| r.2), y.first().map_or(0, |r| r.2));
    while i < x.len() && j < y.len() {
        if !(y[j].0 <= x[i].0 && x[i].1 <= y[j].1) {
            return false;
        }
        let d = ri.min(rj);
        ri -= d;
        rj -= d;
        if ri == 0 {
            i += 1;
            ri = x.get(i).map_or(0, |r| r.2);
        }
        if rj == 0 {
            j += 1;
            rj = y.get(j).map_or(0, |r| r.2);
        }
    }
    i == x.len() && j == y.len()
}

/// is L(left) included in L(right)? `left` has no star. Some(answer) when it is decided analytically
/// (right with at most one star), None for a right-hand side with two stars.
pub fn powers_included(left: &Powers, right: &Powers) -> Option<bool> {
    let (l, r) = (left.len(), right.len());
    match (right.lead_star, right.trail_star) {
        (false, false) => Some(l == r && positionwise_included(&left.window(0, l), &right.window(0, r))),
        (false, true) => Some(l >= r && positionwise_included(&left.window(0, r), &right.window(0, r))),
        (true, false) => Some(l >= r && positionwise_included(&left.window(l - r.min(l), r), &right.window(0, r))),
        (true, true) => {
            if r == 0 {
                Some(true)
            } else {
                None
            }
        }
    }
}

const POWER_LADDER: [u32; 16] = [1, 2, 3, 255, 256, 257, 1023, 1024, 1025, 4096, 5000, 65_535, 65_536, 65_537, 70_000, 100_000];

fn gen_powers_pair(rng: &mut Rng) -> (Powers, Powers) {
    let rg = |rng: &mut Rng| -> (u32, u32) { *rng.pick(&[(0x61, 0x61), (0x61, 0x62), (0x61, 0x7a), (0, 0x2FFFF), (0x62, 0x62)]) };
    let m = *rng.pick(&POWER_LADDER);
    let n = match rng.below(5) {
        0 | 1 => m,
        2 => m.saturating_sub(1).max(1),
        3 => m + 1,
        _ => *rng.pick(&POWER_LADDER),
    };
    let (x, y) = (rg(rng), if rng.chance(2, 3) { (0, 0x2FFFF) } else { rg(rng) });
    let mut left = Powers { lead_star: false, runs: vec![(x.0, x.1, m)], trail_star: false };
    let mut right = Powers { lead_star: rng.chance(1, 4), runs: vec![(y.0, y.1, n)], trail_star: rng.chance(1, 4) };
    // a last (or first) character on both sides
    match rng.below(4) {
        0 => {
            left.runs.push((0x62, 0x62, 1));
            right.runs.push((0x62, 0x62, 1));
        }
        1 => {
            left.runs.insert(0, (0x63, 0x63, 1));
            right.runs.insert(0, (0x61, 0x7a, 1));
        }
        2 => {
            // the right-hand power split in two runs with the same total
            let k = right.runs[0].2;
            if k >= 2 {
                let h = 1 + rng.below(k as u64 - 1) as u32;
                let (a, b) = (right.runs[0].0, right.runs[0].1);
                right.runs = vec![(a, b, h), (0, 0x2FFFF, k - h)];
            }
        }
        _ => {}
    }
    (left, right)
}

/// one pair: included_in is judged when it answers true; the union of the two must still contain strings of the left side
pub fn check_powers_pair(rep: &mut Report, left: &Powers, right: &Powers, seed: u64) {
    let case = format!("powers {} ; {}", left.to_text(), right.to_text());
    let r = guard(|| -> Result<(), String> {
        let mut m = ReManager::new();
        let (tl, tr) = (left.build(&mut m), right.build(&mut m));
        rep.inc("power_pairs_asked");
        rep.max("largest_power_in_an_inclusion_query", left.len().max(right.len()));
        let got = tl.included_in(tr);
        let truth = powers_included(left, right);
        if got {
            rep.inc("power_pairs_answered_true");
            if truth == Some(false) {
                return Err(format!("({}).included_in({}) = true, but every string of the first language has length {} and the second requires {}{} with the ranges shown", left.to_text(), right.to_text(), left.len(), if right.lead_star || right.trail_star { "at least " } else { "exactly " }, right.len()));
            }
        }
        // strings of the left language: all-low, all-high
        let words: Vec<Vec<u32>> = vec![left.runs.iter().flat_map(|&(a, _, k)| std::iter::repeat(a).take(k as usize)).collect(), left.runs.iter().flat_map(|&(_, b, k)| std::iter::repeat(b).take(k as usize)).collect()];
        // (membership in a language Sigma* . Y^n ... costs about n derivatives per character: short cases only)
        let cheap = left.len() <= 70_001 && (!right.lead_star || left.len().max(right.len()) <= 130);
        if got && cheap {
            for w in &words {
                rep.inc("power_members_checked_in_the_including_language");
                if !m.str_in_re(&sw(w), tr) {
                    return Err(format!("({}).included_in({}) = true, but the string {}^... of length {} of the first language is not in the second (membership test)", left.to_text(), right.to_text(), show_str(&w[..w.len().min(3)]), w.len()));
                }
            }
        }
        if cheap {
            // a union never loses the strings of an operand, whatever the pruning decided
            let u = m.union(tl, tr);
            let u2 = m.union(tr, tl);
            for w in &words {
                rep.inc("power_members_checked_in_the_union");
                if !m.str_in_re(&sw(w), u) || !m.str_in_re(&sw(w), u2) {
                    return Err(format!("union({}, {}) does not contain the string {}... of length {} of its first operand", left.to_text(), right.to_text(), show_str(&w[..w.len().min(3)]), w.len()));
                }
            }
        }
        Ok(())
    });
    match r {
        Ok(Ok(())) => {}
        Ok(Err(e)) => viol(rep, "unsound-inclusion", "powers", e, seed, &case),
        Err(msg) => viol(rep, "included-in-panic", "powers", format!("panicked on {}: {}", case, msg), seed, &case),
    }
}

pub fn powers_inclusion(rep: &mut Report, count: u64, rng: &mut Rng, seed: u64) {
    for _ in 0..count {
        let (l, r) = gen_powers_pair(rng);
        let t0 = std::time::Instant::now();
        check_powers_pair(rep, &l, &r, seed);
        let el = t0.elapsed().as_millis() as u64;
        rep.max("power_pair_wall_ms", el);
        if el > 1000 && std::env::var("SMTMON_SLOW").is_ok() {
            eprintln!("SLOW {} ms: powers {} ; {}", el, l.to_text(), r.to_text());
        }
    }
}

// ------------------------------------------------------------------ regex replace on subjects of 2^16 characters and more

/// leftmost-shortest replace by definition on the reference DFA, with an exact dead-state test; None when the
/// work (DFA steps) would exceed `cap` (then the crate is not asked either: its own search costs the same)
fn replace_by_dfa(d: &crate::oracle::re::Dfa, dead: &[bool], aw: &[usize], subj: &[u32], t: &[u32], all: bool, cap: u64) -> Option<Vec<u32>> {
    let n = subj.len();
    let mut out: Vec<u32> = Vec::new();
    let mut pos = 0usize;
    let mut work = 0u64;
    loop {
        let mut found: Option<(usize, usize)> = None;
        let mut i = pos;
        'starts: while i <= n {
            let mut st = d.start;
            if d.f[st as usize] && !all {
                found = Some((i, i));
                break 'starts;
            }
            let mut j = i;
            while j < n && !dead[st as usize] {
                st = d.step(st, aw[j]);
                j += 1;
                work += 1;
                if work > cap {
                    return None;
                }
                if d.f[st as usize] {
                    found = Some((i, j));
                    break 'starts;
                }
            }
            i += 1;
        }
        match found {
            Some((i, j)) => {
                out.extend_from_slice(&subj[pos..i]);
                out.extend_from_slice(t);
                pos = j;
                if !all {
                    out.extend_from_slice(&subj[pos..]);
                    return Some(out);
                }
            }
            None => {
                out.extend_from_slice(&subj[pos.min(n)..]);
                return Some(out);
            }
        }
    }
}

pub fn long_subject_replace(rep: &mut Report, which: usize, n: usize, seed: u64) {
    use crate::oracle::re::*;
    use aws_smt_strings::smt_regular_expressions as w;
    let case = format!("long-replace {} {}", which, n);
    let (a, b, x) = (0x61u32, 0x62u32, 0x78u32);
    let ch = |c: u32| r_range(c, c);
    let notb = r_or(vec![r_range(0, b - 1), r_range(b + 1, 0x2FFFF)]);
    // patterns
    let pats: Vec<(&str, R)> = vec![
        ("a Sigma* b", r_cat(vec![ch(a), r_all(), ch(b)])),
        ("[^b]* b", r_cat(vec![r_loop(notb.clone(), 0, None), ch(b)])),
        ("a x* b", r_cat(vec![ch(a), r_loop(ch(x), 0, None), ch(b)])),
        ("(x x)+ b", r_cat(vec![r_loop(r_cat(vec![ch(x), ch(x)]), 1, None), ch(b)])),
        ("a{3,5}", r_loop(ch(a), 3, Some(5))),
        ("x* a", r_cat(vec![r_loop(ch(x), 0, None), ch(a)])),
    ];
    // subjects
    let rep_x = |k: usize| std::iter::repeat(x).take(k);
    let subjects: Vec<(&str, Vec<u32>)> = vec![
        ("a x^n b", std::iter::once(a).chain(rep_x(n)).chain(std::iter::once(b)).collect()),
        ("x^n b", rep_x(n).chain(std::iter::once(b)).collect()),
        ("x^n a x x x b x^n", rep_x(n).chain([a, x, x, x, b]).chain(rep_x(n)).collect()),
        ("x^n a a a a x", rep_x(n).chain([a, a, a, a, x]).collect()),
        ("b^n a x b", std::iter::repeat(b).take(n).chain([a, x, b]).collect()),
    ];
    let (pname, pr) = &pats[which % pats.len()];
    let r = guard(|| -> Result<(), String> {
        let mut eng = Engine::new(Atoms::from_points(&[a, b, x]), 4000);
        eng.ensure_ref(pr);
        let d = eng.dfa(pr).map_err(|_| "reference budget".to_string())?;
        let dead: Vec<bool> = (0..d.n() as u32).map(|s| d.is_empty_from(s)).collect();
        // the same pattern through the wrappers
        let s1 = |c: u32| SmtString::from(&[c][..]);
        let tb = w::str_to_re(&s1(b));
        let ta = w::str_to_re(&s1(a));
        let tx = w::str_to_re(&s1(x));
        let term = match which % pats.len() {
            0 => w::re_concat_list([ta, w::re_all(), tb].into_iter()),
            1 => w::re_concat(w::re_star(w::re_diff(w::re_allchar(), tb)), tb),
            2 => w::re_concat_list([ta, w::re_star(tx), tb].into_iter()),
            3 => w::re_concat(w::re_plus(w::re_concat(tx, tx)), tb),
            4 => w::re_loop(ta, 3, 5),
            _ => w::re_concat(w::re_star(tx), ta),
        };
        for (sname, subj) in &subjects {
            let aw = eng.atoms.word_of(subj);
            for (rp, all) in [(vec![0x54u32], false), (vec![0x54u32], true), (vec![], true)] {
                let want = match replace_by_dfa(&d, &dead, &aw, subj, &rp, all, 3_000_000) {
                    Some(v) => v,
                    None => {
                        rep.inc("long_replace_cases_skipped_quadratic");
                        continue;
                    }
                };
                rep.inc("long_subject_replace_calls_compared");
                rep.max("longest_subject_in_a_regex_replace", subj.len() as u64);
                let (ss, st) = (SmtString::from(&subj[..]), SmtString::from(&rp[..]));
                let got: Vec<u32> = if all { w::str_replace_re_all(&ss, term, &st) } else { w::str_replace_re(&ss, term, &st) }.iter().copied().collect();
                if got != want {
                    let first = got.iter().zip(want.iter()).position(|(p, q)| p != q).unwrap_or(got.len().min(want.len()));
                    return Err(format!("{}(subject {} with n = {}, pattern {}, replacement {}) has length {} and differs from the leftmost-shortest definition (length {}) at position {}", if all { "str_replace_re_all" } else { "str_replace_re" }, sname, n, pname, show_str(&rp), got.len(), want.len(), first));
                }
            }
        }
        Ok(())
    });
    match r {
        Ok(Ok(())) => {}
        Ok(Err(e)) => viol(rep, "replace-re", "long-subject", e, seed, &case),
        Err(msg) => viol(rep, "replace-panic", "long-subject", format!("panicked: {}", msg), seed, &case),
    }
}

// ------------------------------------------------------------------ loop bounds anywhere between 300 and 10^5

/// x^[i,j] with bounds drawn log-uniformly between 1 and 10^5 (the gaps between the dense small bounds and the
/// probes next to 2^16): membership of x^k for k around both bounds, alone and followed by another letter
pub fn loop_bounds_sweep(rep: &mut Report, rng: &mut Rng, pairs: usize, seed: u64) {
    let draw = |rng: &mut Rng| -> u32 {
        let magic = [100u32, 128, 500, 512, 1000, 1023, 1024, 1025, 2000, 2048, 4095, 4096, 4097, 5000, 8192, 10_000, 16_384, 20_000, 32_768, 50_000, 100_000];
        if rng.chance(1, 2) {
            *rng.pick(&magic)
        } else {
            let bits = 7 + rng.below(10) as u32;
            (1u32 << bits) + rng.below(1u64 << bits) as u32
        }
    };
    for _ in 0..pairs {
        let (p, q) = (draw(rng), draw(rng));
        let (i, j) = if rng.chance(1, 4) { (p, p) } else { (p.min(q), p.max(q)) };
        let unbounded = rng.chance(1, 5);
        loop_bounds_pair(rep, i, j, unbounded, seed);
    }
}

pub fn loop_bounds_pair(rep: &mut Report, i: u32, j: u32, unbounded: bool, seed: u64) {
    {
        let case = format!("loop-bounds {} {} {}", i, j, unbounded as u8);
        let r = guard(|| -> Result<(), String> {
            let mut m = ReManager::new();
            let x = m.range(0x61, 0x62);
            let l = if unbounded { m.mk_loop(x, aws_smt_strings::loop_ranges::LoopRange::infinite(i)) } else { m.smt_loop(x, i, j) };
            let c = m.char(0x63);
            let lc = m.concat(l, c);
            rep.inc("loop_bound_pairs");
            rep.max("largest_loop_bound_in_the_sweep", j as u64);
            for k in [i.saturating_sub(1), i, i + 1, (i + j) / 2, j - 1, j, j + 1] {
                let want = k >= i && (unbounded || k <= j);
                let w: Vec<u32> = (0..k).map(|t| 0x61 + (t % 2)).collect();
                rep.inc("loop_bound_membership_answers");
                let got = m.str_in_re(&sw(&w), l);
                let mut wc = w.clone();
                wc.push(0x63);
                let got2 = m.str_in_re(&sw(&wc), lc);
                if got != want || got2 != want {
                    return Err(format!("[a-b]^[{},{}]: str_in_re of a word of length {} = {}, followed by c = {}; expected {}", i, if unbounded { "inf".to_string() } else { j.to_string() }, k, got, got2, want));
                }
            }
            if l.nullable || m.is_empty_re(l) {
                return Err(format!("[a-b]^[{},{}]: nullable = {}, is_empty_re = {}", i, j, l.nullable, m.is_empty_re(l)));
            }
            Ok(())
        });
        match r {
            Ok(Ok(())) => {}
            Ok(Err(e)) => viol(rep, "member", "loop-bounds", e, seed, &case),
            Err(msg) => viol(rep, "member-panic", "loop-bounds", format!("panicked: {}", msg), seed, &case),
        }
    }
}

// ------------------------------------------------------------------ depth instead of width

/// Two families nested `depth` levels deep without being wide:
/// T(0) = a, T(i+1) = a . (eps + T(i))            : the language a^[1, depth+1]
/// U(0) = c_0, U(i+1) = c_(i+1) + c_(i+1) . U(i)   : the descending runs c_depth c_(depth-1) ... c_j (all start with c_depth)
pub fn deep_nesting(rep: &mut Report, prop: &str, depth: u32, seed: u64) {
    let case = format!("nesting {} {}", prop, depth);
    let r = guard(|| -> Result<(), String> {
        let mut m = ReManager::new();
        let a = m.char(0x61);
        let mut t = a;
        for _ in 0..depth {
            let o = m.opt(t);
            t = m.concat(a, o);
        }
        let c = |i: u32| 0x1000 + i;
        let mut u = m.char(c(0));
        for i in 1..=depth {
            let ci = m.char(c(i));
            let cu = m.concat(ci, u);
            u = m.union(ci, cu);
        }
        rep.inc("deeply_nested_terms_built");
        rep.max("nesting_depth", depth as u64);
        let run = |hi: u32, lo: u32| -> Vec<u32> { (lo..=hi).rev().map(c).collect() };
        match prop {
            "C02" => {
                let (at, au) = (m.compile(t), m.compile(u));
                // a^[1,d+1]: d+2 live states and a sink; descending runs: start, one state per letter, final... by definition below
                if at.num_states() != depth as usize + 3 {
                    return Err(format!("compile of a.(eps + a.(eps + ...)) nested {} deep has {} states, the language a^[1,{}] needs {}", depth, at.num_states(), depth + 1, depth + 3));
                }
                for j in [0u32, 1, depth, depth + 1, depth + 2] {
                    let w = vec![0x61; j as usize];
                    if at.accepts(&sw(&w)) != (j >= 1 && j <= depth + 1) {
                        return Err(format!("automaton of the nested term accepts a^{} = {}", j, at.accepts(&sw(&w))));
                    }
                }
                for (w, want) in [(run(depth, 0), true), (run(depth, depth), true), (run(depth, depth / 2), true), (run(depth / 2, 1), false), (vec![c(1), c(2)], false), (run(depth, 0).into_iter().chain([c(0)]).collect(), false)] {
                    if au.accepts(&sw(&w)) != want {
                        return Err(format!("automaton of the nested union (depth {}) accepts a descending run of length {} = {}, expected {}", depth, w.len(), !want, want));
                    }
                }
            }
            "C05" => {
                if m.is_empty_re(t) || m.is_empty_re(u) {
                    return Err(format!("is_empty_re of a term nested {} deep is true", depth));
                }
                let (wt, wu) = (m.get_string(t), m.get_string(u));
                let ok_t = wt.as_ref().map_or(false, |w| w.len() >= 1 && w.len() <= depth as usize + 1 && w.iter().all(|&x| x == 0x61));
                let ok_u = wu.as_ref().map_or(false, |w| m.str_in_re(w, u));
                if !ok_t || !ok_u {
                    return Err(format!("get_string of the terms nested {} deep: {:?} / {:?}", depth, wt.map(|w| w.len()), wu.map(|w| w.len())));
                }
                let nb = m.char(0x62);
                let both = m.inter(t, nb);
                if !m.is_empty_re(both) || m.get_string(both).is_some() {
                    return Err("the intersection of the nested term with another letter is not reported empty".into());
                }
            }
            _ => {
                if t.nullable || u.nullable {
                    return Err("nullable flag of a deeply nested term is true".into());
                }
                for j in [0u32, 1, 2, depth, depth + 1, depth + 2] {
                    rep.inc("deep_membership_answers");
                    let w = vec![0x61; j as usize];
                    let got = m.str_in_re(&sw(&w), t);
                    if got != (j >= 1 && j <= depth + 1) {
                        return Err(format!("str_in_re(a^{}, a.(eps + a.(eps + ...)) nested {} deep) = {}", j, depth, got));
                    }
                }
                for (w, want) in [(run(depth, 0), true), (run(depth, depth), true), (run(depth / 2, 1), false), (run(depth, depth / 2), true), (vec![c(1), c(2)], false), (run(depth, 1).into_iter().chain([c(1)]).collect(), false), (vec![], false)] {
                    rep.inc("deep_membership_answers");
                    let got = m.str_in_re(&sw(&w), u);
                    if got != want {
                        return Err(format!("str_in_re on the union nested {} deep: a run of length {} gives {}, expected {}", depth, w.len(), got, want));
                    }
                }
                let nt = m.complement(t);
                if m.str_in_re(&sw(&[0x61]), nt) || !m.str_in_re(&sw(&vec![0x61; depth as usize + 2]), nt) {
                    return Err("complement of the deeply nested term answers wrongly".into());
                }
            }
        }
        Ok(())
    });
    match r {
        Ok(Ok(())) => {}
        Ok(Err(e)) => viol(rep, "nesting", prop, e, seed, &case),
        Err(msg) => viol(rep, "nesting", "panic", format!("panicked on terms nested {} deep: {}", depth, msg), seed, &case),
    }
}

pub fn replay(text: &str, seed: u64, rep: &mut Report) -> bool {
    if let Some(rest) = text.trim().strip_prefix("powers ") {
        if let Some((a, b)) = rest.split_once(';') {
            if let (Some(l), Some(r)) = (Powers::from_text(a), Powers::from_text(b)) {
                check_powers_pair(rep, &l, &r, seed);
                return true;
            }
        }
        return false;
    }
    let tk: Vec<&str> = text.split_whitespace().collect();
    match tk.as_slice() {
        ["traversal", k, c] => {
            if let (Some(kind), Ok(c)) = (Trav::from_name(k), c.parse::<u32>()) {
                traversal_gap(rep, kind, c, seed);
                return true;
            }
            false
        }
        ["long-replace", k, n] => {
            if let (Ok(k), Ok(n)) = (k.parse::<usize>(), n.parse::<usize>()) {
                long_subject_replace(rep, k, n, seed);
                return true;
            }
            false
        }
        ["loop-bounds", i, j, u] => {
            if let (Ok(i), Ok(j)) = (i.parse::<u32>(), j.parse::<u32>()) {
                loop_bounds_pair(rep, i, j, *u == "1", seed);
                return true;
            }
            false
        }
        ["nesting", p, d] => {
            if let Ok(d) = d.parse::<u32>() {
                deep_nesting(rep, p, d, seed);
                return true;
            }
            false
        }
        ["discrete", p] => {
            discrete_partitions(rep, p, seed);
            true
        }
        ["big-query", n] => {
            if let Ok(n) = n.parse::<u32>() {
                big_wrapper_query(rep, n, seed);
                return true;
            }
            false
        }
        ["wide-union", p, n] => {
            if let Ok(n) = n.parse::<u32>() {
                wide_union(rep, p, n, seed);
                return true;
            }
            false
        }
        ["wide-union", p, n, f0] => {
            if let (Ok(n), Ok(f0)) = (n.parse::<u32>(), f0.parse::<u32>()) {
                wide_union_from(rep, p, n, f0, seed);
                return true;
            }
            false
        }
        ["wide-long", n, l] => {
            if let (Ok(n), Ok(l)) = (n.parse::<u32>(), l.parse::<u32>()) {
                wide_long_words(rep, n, l, seed);
                return true;
            }
            false
        }
        ["wide-tree", p, n] => {
            if let Ok(n) = n.parse::<u32>() {
                wide_tree(rep, p, n, seed);
                return true;
            }
            false
        }
        _ => false,
    }
}
