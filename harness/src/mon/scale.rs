//! Very large but simple expressions whose answers are known analytically (no reference DFA needed):
//! T1 = a . b^N and T2 = Sigma^N & (c . Sigma*). Their derivative closures are chains of N + 3 terms.

use crate::util::*;
use aws_smt_strings::character_sets::ClassId;
use aws_smt_strings::regular_expressions::{ReManager, RegLan};

pub const N_QUICK: u32 = 70_000;
pub const N_THOROUGH: u32 = 150_000;

pub fn t1(m: &mut ReManager, n: u32) -> RegLan {
    let a = m.char('a' as u32);
    let b = m.char('b' as u32);
    let bn = m.exp(b, n);
    m.concat(a, bn)
}

pub fn t2(m: &mut ReManager, n: u32) -> RegLan {
    let s = m.all_chars();
    let sn = m.exp(s, n);
    let c = m.char('c' as u32);
    let full = m.full();
    let cs = m.concat(c, full);
    m.inter(sn, cs)
}

fn viol(rep: &mut Report, rule: &str, detail: String, seed: u64, n: u32) {
    rep.violation(rule, &format!("{}:scale", rule), detail, "scale", &format!("{}", n), seed);
}

pub fn c18(rep: &mut Report, n: u32, seed: u64) {
    let mut m = ReManager::new();
    let e1 = t1(&mut m, n);
    let e2 = t2(&mut m, n);
    rep.inc("scale_probes");
    let r = guard(|| {
        (
            m.start_char(e1, 'a' as u32),
            m.start_char(e1, 'b' as u32),
            m.start_class(e1, ClassId::Interval(0)),
            m.start_char(e2, 'c' as u32),
            m.start_char(e2, 'd' as u32),
        )
    });
    match r {
        Ok((a, b, cls, c, d)) => {
            // e1 = a b^N: only 'a' can start a member; e2: strings of length N starting with c
            if !a || b || cls != Ok(true) || !c || d {
                viol(rep, "start-char", format!("a.b^{n}: start_char 'a' = {a}, 'b' = {b}, start_class(Interval(0)) = {cls:?} (expected true, false, Ok(true)); Sigma^{n} & c.Sigma*: start_char 'c' = {c}, 'd' = {d} (expected true, false)"), seed, n);
            }
        }
        Err(msg) => viol(rep, "start-char", format!("start_char panicked on a chain of {} derivatives: {}", n, msg), seed, n),
    }
}

pub fn c05(rep: &mut Report, n: u32, seed: u64) {
    let mut m = ReManager::new();
    let e1 = t1(&mut m, n);
    rep.inc("scale_probes");
    match guard(|| (m.is_empty_re(e1), m.get_string(e1))) {
        Ok((empty, w)) => {
            let ok = match &w {
                Some(s) => s.len() == n as usize + 1 && s.char(0) == 'a' as u32 && s.iter().skip(1).all(|&c| c == 'b' as u32),
                None => false,
            };
            if empty || !ok {
                viol(rep, "witness", format!("a.b^{}: is_empty_re = {}, get_string is the unique member = {} (length {:?})", n, empty, ok, w.map(|s| s.len())), seed, n);
            }
        }
        Err(msg) => viol(rep, "witness", format!("is_empty_re/get_string panicked on a.b^{}: {}", n, msg), seed, n),
    }
    // an empty language with a long chain: (a.b^N) & (a.b^(N-1)) has no member
    let a = m.char('a' as u32);
    let b = m.char('b' as u32);
    let bn1 = m.exp(b, n - 1);
    let e3 = m.concat(a, bn1);
    let both = m.inter(e1, e3);
    match guard(|| (m.is_empty_re(both), m.get_string(both).is_none())) {
        Ok((empty, none)) => {
            if !empty || !none {
                viol(rep, "emptiness", format!("(a.b^{}) & (a.b^{}): is_empty_re = {}, get_string is None = {}", n, n - 1, empty, none), seed, n);
            }
        }
        Err(msg) => viol(rep, "emptiness", format!("is_empty_re panicked on a long chain: {}", msg), seed, n),
    }
}

fn below_count(count: usize, below: bool, at: Option<usize>) -> bool {
    below || at != Some(count)
}

pub fn c19(rep: &mut Report, n: u32, seed: u64) {
    let mut m = ReManager::new();
    let e1 = t1(&mut m, n);
    rep.inc("scale_probes");
    let want = n as usize + 3;
    let r = guard(|| {
        let count = m.iter_derivatives(e1).take(4 * want).count();
        let below = m.try_compile(e1, count - 1).is_some();
        let at = m.try_compile(e1, count).map(|a| a.num_states());
        (count, below, at)
    });
    match r {
        Ok((count, below, at)) => {
            if count < want || below_count(count, below, at) {
                viol(rep, "bound", format!("a.b^{}: iter_derivatives yields {} terms (the language needs {} states), try_compile(count - 1) is Some = {}, try_compile(count) = {:?} states", n, count, want, below, at), seed, n);
            }
        }
        Err(msg) => viol(rep, "bound", format!("closure/try_compile panicked on a.b^{}: {}", n, msg), seed, n),
    }
}

/// C01 at scale: loop bounds around 2^16, on a manager that already holds more than 2^17 terms
pub fn c01(rep: &mut Report, seed: u64) {
    use aws_smt_strings::loop_ranges::LoopRange;
    use aws_smt_strings::smt_strings::SmtString;
    let mut m = ReManager::new();
    super::rectx::bulk_preload(&mut m, 70_000);
    rep.inc("scale_probes");
    let a = m.char('a' as u32);
    let ab = m.range('a' as u32, 'b' as u32);
    let (lo, hi) = (65_535u32, 65_537u32);
    let l1 = m.smt_loop(a, lo, hi);
    let l2 = m.mk_loop(ab, LoopRange::infinite(65_536));
    let l3 = m.exp(a, 65_536);
    let cat = m.concat(l3, a); // a^65537
    let r = guard(|| {
        let mut bad: Vec<String> = Vec::new();
        for k in [lo - 1, lo, lo + 1, hi, hi + 1] {
            let w = SmtString::from(vec!['a' as u32; k as usize]);
            let want1 = lo <= k && k <= hi;
            if m.str_in_re(&w, l1) != want1 {
                bad.push(format!("a^{} in a^[{},{}] answered {}", k, lo, hi, !want1));
            }
            let want2 = k >= 65_536;
            if m.str_in_re(&w, l2) != want2 {
                bad.push(format!("a^{} in [a-b]^[65536,inf) answered {}", k, !want2));
            }
            let want3 = k == 65_537;
            if m.str_in_re(&w, cat) != want3 {
                bad.push(format!("a^{} in a^65536 . a answered {}", k, !want3));
            }
        }
        if l1.nullable || l2.nullable || cat.nullable {
            bad.push("a loop with a positive lower bound over a non-nullable body is nullable".to_string());
        }
        bad
    });
    match r {
        Ok(bad) => {
            if !bad.is_empty() {
                viol(rep, "member", format!("large loop bounds on a manager with 140 000 terms: {}", bad.join("; ")), seed, 65_536);
            }
        }
        Err(msg) => viol(rep, "member", format!("membership with loop bounds around 2^16 panicked: {}", msg), seed, 65_536),
    }
}
