//! C16 — included_in never claims an inclusion that does not hold; unions never lose strings.

use super::c01::cfg;
use super::rectx::*;
use crate::gen::reprog::*;
use crate::util::*;
use aws_smt_strings::regular_expressions::{BaseRegLan, RegLan};
use aws_smt_strings::verif_hooks::take_subsumptions;

fn flatten<'a>(t: RegLan, out: &mut Vec<RegLan>) {
    match t.verif_expr() {
        BaseRegLan::Epsilon => {}
        BaseRegLan::Concat(a, b) => {
            flatten(a, out);
            flatten(b, out);
        }
        _ => out.push(t),
    }
}

fn is_full(t: RegLan) -> bool {
    if let BaseRegLan::Loop(x, rng) = t.verif_expr() {
        if let BaseRegLan::Range(cs) = x.verif_expr() {
            return rng.verif_bounds() == (0, None) && cs.is_alphabet();
        }
    }
    false
}

/// which branch of the (documented) case analysis must have produced a positive answer
fn classify(r: RegLan, s: RegLan) -> String {
    use BaseRegLan::*;
    if std::ptr::eq(r, s) {
        return "identity".into();
    }
    match (r.verif_expr(), s.verif_expr()) {
        (Empty, _) => "empty-left".into(),
        (Epsilon, _) => "epsilon-left".into(),
        (Complement(_), Complement(_)) => "complement-contraposition".into(),
        (_, Union(_)) => "union-right".into(),
        (Inter(_), _) => "inter-left".into(),
        (Union(_), _) => "union-left".into(),
        (_, Inter(_)) => "inter-right".into(),
        _ => {
            let mut v = Vec::new();
            flatten(s, &mut v);
            let mut u = Vec::new();
            flatten(r, &mut u);
            // base patterns of the right-hand side: maximal runs of ranges (rigid) / non-ranges (flexible)
            let mut patterns = 0;
            let mut last: Option<bool> = None;
            let mut flex = 0;
            for x in &v {
                let rigid = matches!(x.verif_expr(), Range(_));
                if last != Some(rigid) {
                    patterns += 1;
                    if !rigid {
                        flex += 1;
                    }
                }
                last = Some(rigid);
            }
            let starts_rigid = v.first().map_or(false, |x| matches!(x.verif_expr(), Range(_)));
            let ends_rigid = v.last().map_or(false, |x| matches!(x.verif_expr(), Range(_)));
            let has_full = v.iter().any(|&x| is_full(x));
            format!(
                "concat-matcher:patterns={}{}{}{}{}",
                patterns.min(5),
                if flex > 0 && has_full { ",sigma-star" } else { "" },
                if starts_rigid { ",rigid-prefix" } else { "" },
                if ends_rigid && patterns > 1 { ",rigid-suffix" } else { "" },
                if patterns >= 3 && flex >= 1 && u.len() > 1 { ",inner" } else { "" }
            )
        }
    }
}

/// judge one positive answer; returns false on violation
fn judge(s: &mut Sess, rep: &mut Report, r: RegLan, t: RegLan, source: &str, k: usize) -> bool {
    let cls = classify(r, t);
    rep.hist("positive_answers_by_branch", &cls);
    if cls.starts_with("concat-matcher") {
        rep.inc("positives_concat_matcher");
        if !cls.contains("patterns=1") {
            rep.inc("positives_concat_matcher_2plus_patterns");
        }
    }
    let (rr, rt) = (s.ctx.sref(r), s.ctx.sref(t));
    match s.ctx.pair(&rr, &rt) {
        Ok((dr, dt)) => {
            rep.inc("positives_judged");
            if let Some(cex) = dr.not_included_from(dr.start, &dt, dt.start) {
                let wd = s.ctx.atoms().word(&cex);
                // confirm with oracle A
                if wd.len() <= 10 {
                    let (a, b) = (crate::oracle::re::dp_matches(&rr, &wd), crate::oracle::re::dp_matches(&rt, &wd));
                    if !(a && !b) {
                        rep.harness_error(format!("oracle A/B disagree on inclusion witness {}", show_str(&wd)));
                        return true;
                    }
                }
                let sig = format!("unsound:{}", cls.split(':').next().unwrap_or(""));
                s.viol(rep, "unsound-inclusion", &sig, format!("[{}] ({}).included_in({}) = true but {} is in the first language and not in the second (branch {})", source, term_text(r), term_text(t), show_str(&wd), cls), k);
                return false;
            }
            true
        }
        Err(_) => {
            rep.inc("skipped_refdfa_budget");
            true
        }
    }
}

pub fn check_program(prog: &Program, seed: u64, thorough: bool, rep: &mut Report) {
    let c = cfg(thorough);
    let _ = take_subsumptions();
    let mut s = Sess::start(prog, seed, thorough, c.budget, 0, rep);
    let n = s.run.terms.len();
    let last = n.saturating_sub(1);
    // (ii) subsumption event log: decisions taken while the program ran
    let mut events = take_subsumptions();
    // trigger internal unions: derivatives / compilation of some results
    for k in 0..n {
        if s.rng.chance(1, 3) {
            let t = s.run.terms[k];
            if closure_size(&mut s.m, t, 300).is_some() {
                let _ = guard(|| s.m.compile(t));
            }
        }
    }
    let internal = take_subsumptions();
    rep.count("subsumption_events_during_construction", events.len() as u64);
    rep.count("subsumption_events_inside_derivatives", internal.len() as u64);
    events.extend(internal);
    let cap = if thorough { 600 } else { 200 };
    if events.len() > cap {
        s.rng.shuffle(&mut events);
        events.truncate(cap);
    }
    for (dropped, by) in events {
        rep.inc("subsumption_events_checked");
        // re-ask through the public API: the hook supplies the pair, not the verdict
        if dropped.included_in(by) {
            if !judge(&mut s, rep, dropped, by, "pruning decision of make_union", last) {
                break;
            }
        } else {
            rep.inc("events_not_confirmed_by_included_in");
        }
    }
    // (i) all ordered pairs of the pool
    let mut npos = 0u64;
    'outer: for i in 0..n {
        for j in 0..n {
            let (r, t) = (s.run.terms[i], s.run.terms[j]);
            rep.inc("pairs_asked");
            match guard(|| r.included_in(t)) {
                Ok(true) => {
                    npos += 1;
                    // identity / empty / epsilon positives are cheap: judge a sample of them, all others always
                    let cls_cheap = std::ptr::eq(r, t) || r.is_empty();
                    if cls_cheap && !s.rng.chance(1, 10) {
                        rep.hist("positive_answers_by_branch", if std::ptr::eq(r, t) { "identity" } else { "empty-left" });
                        continue;
                    }
                    if !judge(&mut s, rep, r, t, "pool pair", i.max(j)) {
                        break 'outer;
                    }
                }
                Ok(false) => {}
                Err(msg) => {
                    s.viol(rep, "included-in-panic", "included-in-panic", format!("included_in panicked on ({}, {}): {}", term_text(r), term_text(t), msg), i.max(j));
                    break 'outer;
                }
            }
        }
    }
    rep.count("positive_answers", npos);
    // (iii) a union contains each of its operands
    for k in 0..n {
        let ops: Vec<usize> = match &prog.ops[k] {
            Op::Union(i, j) => vec![*i, *j],
            Op::UnionList(v) => v.clone(),
            _ => continue,
        };
        let u = s.run.terms[k];
        for i in ops {
            rep.inc("union_operand_inclusions_checked");
            let (ro, ru) = (s.ctx.sref(s.run.terms[i]), s.ctx.sref(u));
            if let Ok((d1, d2)) = s.ctx.pair(&ro, &ru) {
                if let Some(cex) = d1.not_included_from(d1.start, &d2, d2.start) {
                    let wd = s.ctx.atoms().word(&cex);
                    s.viol(rep, "union-lost-strings", "union-lost-strings", format!("union {} does not contain {} of its operand {}", term_text(u), show_str(&wd), term_text(s.run.terms[i])), k);
                    break;
                }
            }
        }
        let nontrivial = s.run.refs[k].size() >= 3;
        let key = s.run.refs[k].show();
        rep.eval(if nontrivial { Some(&key) } else { None });
    }
    rep.evals(n as u64);
    rep.distinct_key(&prog.to_text());
}

pub fn run(p: &Params, rep: &mut Report) {
    {
        // fixed powers of character ranges with exponents next to 2^8, 2^10, 2^12, 2^16: analytic answers
        let mut rng = p.rng(0x1616);
        super::ladder::powers_inclusion(rep, p.size(60, 600), &mut rng, p.seed);
    }
    let n = p.size(600, 6000);
    let w = [(Profile::Patterns, 60), (Profile::Boolean, 10), (Profile::Boundary, 10), (Profile::Mixed, 20)];
    for_programs(p, rep, 16, n, &w, (25, 45), |prog, seed, rep| check_program(prog, seed, p.thorough, rep));
}

pub fn replay(kind: &str, text: &str, seed: u64, rep: &mut Report) -> bool {
    if kind != KIND_MGR {
        return false;
    }
    replay_program(text, rep, |p, rep| check_program(p, seed, false, rep))
}
