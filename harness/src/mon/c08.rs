//! C08 — literal parsing follows the SMT-LIB escapes; printing is printable ASCII and round-trips.

use crate::oracle::smt as o;
use crate::util::*;
use aws_smt_strings::smt_strings::*;

fn v(x: &SmtString) -> Vec<u32> {
    x.iter().copied().collect()
}

fn text_of(sym: &[char], idx: u64, len: usize) -> Vec<char> {
    let b = sym.len() as u64;
    let mut t = Vec::with_capacity(len);
    let mut i = idx;
    for _ in 0..len {
        t.push(sym[(i % b) as usize]);
        i /= b;
    }
    t
}

fn show_text(t: &[char]) -> String {
    t.iter().map(|c| if c.is_ascii_graphic() { c.to_string() } else { format!("<{:x}>", *c as u32) }).collect()
}

pub fn check_parse(rep: &mut Report, t: &[char], seed: u64) -> bool {
    let text: String = t.iter().collect();
    let want = o::parse_literal(t);
    rep.inc("texts_parsed");
    match guard(|| parse_smt_literal(&text)) {
        Ok(got) => {
            if v(&got) != want {
                rep.violation("parse", &format!("parse:{}", short(&show_text(t), 40)), format!("parse_smt_literal({}) = {} but the SMT-LIB reading is {}", show_text(t), show_str(&v(&got)), show_str(&want)), "literal", &escape_case(t), seed);
                return false;
            }
            true
        }
        Err(msg) => {
            rep.violation("parse", "parse:panic", format!("parse_smt_literal({}) panicked: {}", show_text(t), msg), "literal", &escape_case(t), seed);
            false
        }
    }
}

fn escape_case(t: &[char]) -> String {
    t.iter().map(|c| format!("{:x}", *c as u32)).collect::<Vec<_>>().join(" ")
}

pub fn check_print(rep: &mut Report, w: &[u32], seed: u64) -> bool {
    rep.inc("strings_printed");
    let s = SmtString::from(w);
    let case = w.iter().map(|c| format!("{:x}", c)).collect::<Vec<_>>().join(" ");
    let printed = match guard(|| format!("{}", s)) {
        Ok(p) => p,
        Err(msg) => {
            rep.violation("print", "print:panic", format!("Display of {} panicked: {}", show_str(w), msg), "smtstring", &case, seed);
            return false;
        }
    };
    let chars: Vec<char> = printed.chars().collect();
    let sig_w = short(&show_str(w), 40);
    if chars.len() < 2 || chars[0] != '"' || chars[chars.len() - 1] != '"' {
        rep.violation("print", &format!("print:quotes:{}", sig_w), format!("Display of {} = {} is not enclosed in double quotes", show_str(w), printed), "smtstring", &case, seed);
        return false;
    }
    if let Some(c) = chars.iter().find(|c| !(' '..='~').contains(c)) {
        rep.violation("print", &format!("print:non-printable:{}", sig_w), format!("Display of {} contains the non-printable/non-ASCII character {:x}", show_str(w), *c as u32), "smtstring", &case, seed);
        return false;
    }
    let body = &chars[1..chars.len() - 1];
    let und = match o::undouble_quotes(body) {
        Some(u) => u,
        None => {
            rep.violation("print", &format!("print:lone-quote:{}", sig_w), format!("Display of {} = {} contains an undoubled double quote", show_str(w), printed), "smtstring", &case, seed);
            return false;
        }
    };
    // read back with the reference parser and with the crate's own parser
    let back_ref = o::parse_literal(&und);
    if back_ref != w {
        rep.violation("roundtrip", &format!("roundtrip:{}", sig_w), format!("{} prints as {} which denotes {}", show_str(w), printed, show_str(&back_ref)), "smtstring", &case, seed);
        return false;
    }
    let und_s: String = und.iter().collect();
    match guard(|| parse_smt_literal(&und_s)) {
        Ok(b) => {
            if v(&b) != w {
                rep.violation("roundtrip", &format!("roundtrip-crate:{}", sig_w), format!("{} prints as {} which parse_smt_literal reads back as {}", show_str(w), printed, show_str(&v(&b))), "smtstring", &case, seed);
                return false;
            }
        }
        Err(msg) => {
            rep.violation("roundtrip", "roundtrip:panic", format!("parse_smt_literal panicked on printed form {}: {}", printed, msg), "smtstring", &case, seed);
            return false;
        }
    }
    // Display under a non-default format specification (width, precision, alignment, fill, alternate): whatever the
    // implementation does with the specification, what it prints - outer padding removed - must still be a literal
    // that reads back to the same string
    if w.len() <= 6 || w.len() % 7 == 0 {
        let variants: Vec<(&str, Result<String, String>)> = vec![
            ("{:3}", guard(|| format!("{:3}", s))),
            ("{:12}", guard(|| format!("{:12}", s))),
            ("{:>9}", guard(|| format!("{:>9}", s))),
            ("{:^7}", guard(|| format!("{:^7}", s))),
            ("{:<2}", guard(|| format!("{:<2}", s))),
            ("{:#}", guard(|| format!("{:#}", s))),
            ("{:1}", guard(|| format!("{:1}", s))),
        ];
        for (spec, r) in variants {
            rep.inc("strings_printed_with_a_format_specification");
            let out = match r {
                Ok(o) => o,
                Err(msg) => {
                    rep.violation("print", "print:panic", format!("Display of {} with {} panicked: {}", show_str(w), spec, msg), "smtstring", &case, seed);
                    return false;
                }
            };
            let t: Vec<char> = out.trim_matches(' ').chars().collect();
            let ok = t.len() >= 2 && t[0] == '"' && t[t.len() - 1] == '"' && o::undouble_quotes(&t[1..t.len() - 1]).map_or(false, |u| o::parse_literal(&u) == w);
            if !ok {
                rep.violation("roundtrip", &format!("roundtrip-spec:{}", spec), format!("{} printed with the format specification {} gives {:?}, which does not read back to the string", show_str(w), spec, out), "smtstring", &case, seed);
                return false;
            }
        }
    }
    // per-character printers agree with Display
    if w.len() == 1 {
        let a = char_to_smt(w[0]);
        let b = smt_char_as_string(w[0]);
        let body_s: String = body.iter().collect();
        if a != body_s || b != body_s {
            rep.violation("print", &format!("print:char-printers:{:x}", w[0]), format!("code point {:x}: Display body {}, char_to_smt {}, smt_char_as_string {}", w[0], body_s, a, b), "smtstring", &case, seed);
            return false;
        }
    }
    true
}


/// does the text contain \u{ddddd} with five hex digits and a value above 0x2FFFF? SMT-LIB 2.6 restricts the first
/// of five digits to 0-2, so this is NOT an escape (the property says so too); cvc5 1.0 nevertheless decodes it
/// to a code point beyond the alphabet, so such texts are kept out of the cvc5 cross-check (DESIGN.md 13)
fn out_of_range_brace(t: &[char]) -> bool {
    let n = t.len();
    for i in 0..n {
        if i + 9 <= n && t[i] == '\\' && t[i + 1] == 'u' && t[i + 2] == '{' && t[i + 8] == '}' && t[i + 3..i + 8].iter().all(|c| c.is_ascii_hexdigit()) && t[i + 3].to_digit(16).unwrap() > 2 {
            return true;
        }
    }
    false
}

/// escape attempts, well-formed and malformed, as text fragments
pub fn escape_fragments() -> (Vec<String>, Vec<String>) {
    let hex = ["0", "2", "3", "a", "F", "9"];
    let mut valid: Vec<String> = Vec::new();
    let mut malformed: Vec<String> = Vec::new();
    // four-digit form
    for a in ["0041", "00e9", "FFFF", "d800", "2fff", "0000", "aBcD"] {
        valid.push(format!("\\u{}", a));
    }
    // braced form: 1 to 5 digits, value <= 2FFFF
    for a in ["0", "41", "A", "e9", "fff", "FFFF", "10000", "2FFFF", "2ffff", "00041", "0d800", "1F600"] {
        valid.push(format!("\\u{{{}}}", a));
    }
    // malformed: wrong digit counts, bad characters, out-of-range values, missing braces
    for a in ["", "3", "30", "30A", "30Ag", "g", "-", "{", "{}", "{g}", "{4", "{41", "{4g}", "{41 }", "{ 41}", "{30000}", "{3FFFF}", "{FFFFF}", "{fffff}", "{100000}", "{000041}", "{02ffff}", "{0000041}", "{00000000}", "{2FFFFF}", "{2FFFF", "{2FFF", "{AC", "{ACG}", "{ACg", "2C-", "2C", "AC0", "u0041", "{\\u0041}", "}", "{+41}", "+041", "{-41}", "-041", "{+}", "{0x41}", "0x41", "{4_1}", "{ +41}", "{41+}", "+41}", "{+0041}", "{+2FFFF}", "+FFF", "{41h}", "{١}", "{４1}"] {
        malformed.push(format!("\\u{}", a));
    }
    for h in hex {
        malformed.push(format!("\\u{}", h));
        malformed.push(format!("\\u{}{}", h, h));
        malformed.push(format!("\\u{}{}{}", h, h, h));
        malformed.push(format!("\\u{{{}{}{}{}{}{}}}", h, h, h, h, h, h));
        malformed.push(format!("\\u{{0{}{}{}{}{}}}", h, h, h, h, h));
        malformed.push(format!("\\u{{{}{}{}", h, h, h));
    }
    malformed.push("\\".to_string());
    malformed.push("\\\\".to_string());
    malformed.push("\\U0041".to_string());
    malformed.push("\\x41".to_string());
    (valid, malformed)
}

pub fn run(p: &Params, rep: &mut Report) {
    let seed = p.seed;
    // (1) exhaustive texts over the escape alphabet
    let sym: Vec<char> = vec!['\\', 'u', '{', '}', '"', '0', 'a', 'F', 'g', '2', '+'];
    let maxlen = match (p.thorough, p.profile == "rel") {
        (true, true) => 8,
        (true, false) | (false, true) => 7,
        (false, false) => 6,
    };
    let mut total = 0u64;
    for len in 0..=maxlen {
        let count = (sym.len() as u64).pow(len as u32);
        let mut idx = p.shard;
        while idx < count {
            let t = text_of(&sym, idx, len);
            let ok = check_parse(rep, &t, seed);
            total += 1;
            if ok && len >= 3 && t[0] == '\\' {
                // texts that begin an escape are the non-trivial ones
                rep.distinct_key(&escape_case(&t));
            }
            idx += p.nshards;
        }
    }
    rep.evals(total);
    rep.count("exhaustive_texts", total);
    rep.count("exhaustive_text_max_len", 0);
    rep.max("exhaustive_text_len", maxlen as u64);
    rep.sample(|| "texts: all strings up to the stated length over \\ u { } \" 0 a F g 2, e.g. \\u{2F0a}g".to_string());

    // (2) exhaustive strings over code points that spell escapes
    let cps: [u32; 12] = ['\\' as u32, 'u' as u32, '{' as u32, '}' as u32, '4' as u32, '1' as u32, '"' as u32, 0, 0x7F, 0xFFFF, 0x10000, 0x2FFFF];
    let slen = if p.thorough { 5 } else { 4 };
    let mut n = 0u64;
    for len in 0..=slen {
        let count = (cps.len() as u64).pow(len as u32);
        let mut idx = p.shard;
        while idx < count {
            let mut w = Vec::with_capacity(len);
            let mut i = idx;
            for _ in 0..len {
                w.push(cps[(i % 12) as usize]);
                i /= 12;
            }
            check_print(rep, &w, seed);
            if w.contains(&('\\' as u32)) {
                rep.distinct_key(&format!("s{}", show_str(&w)));
            }
            n += 1;
            idx += p.nshards;
        }
    }
    rep.evals(n);
    rep.count("exhaustive_strings", n);
    rep.sample(|| "strings: all sequences up to the stated length over the code points \\ u { } 4 1 \" 0 7f ffff 10000 2ffff, e.g. [5c 75 7b 34 31 7d]".to_string());

    // (3) every single code point
    let mut c = p.shard as u32;
    let mut singles = 0u64;
    while c <= 0x2FFFF {
        check_print(rep, &[c], seed);
        singles += 1;
        c += p.nshards as u32;
    }
    rep.evals(singles);
    rep.count("single_code_points", singles);

    // (3b) structured escape attempts: every ordered pair and triple of fragments (a malformed attempt that
    //      already consumed digits followed by a well-formed escape, and so on), and all braced escapes with
    //      0 to 8 digits over 6 hex symbols
    let (valid, malformed) = escape_fragments();
    let mut frags: Vec<&String> = valid.iter().collect();
    frags.extend(malformed.iter());
    let mut k = 0u64;
    let mut structured = 0u64;
    for a in &frags {
        for b in &frags {
            k += 1;
            if k % p.nshards != p.shard {
                continue;
            }
            let t: Vec<char> = format!("{}{}", a, b).chars().collect();
            if check_parse(rep, &t, seed) && rep.xchecks.len() < 60 && structured % 7 == 0 && !t.contains(&'"') && !out_of_range_brace(&t) {
                // how does an SMT solver read this literal?  "<text>" = str.++ of the code points we expect
                let text: String = t.iter().collect();
                let want = o::parse_literal(&t);
                rep.xcheck(|| {
                    let parts: Vec<String> = want.iter().map(|c| format!("(str.from_code {})", c)).collect();
                    let rhs = match parts.len() {
                        0 => "\"\"".to_string(),
                        1 => parts[0].clone(),
                        _ => format!("(str.++ {})", parts.join(" ")),
                    };
                    format!("(= \"{}\" {})", text, rhs)
                });
            }
            rep.distinct_key(&escape_case(&t));
            structured += 1;
            // a third fragment from the well-formed ones, and a plain separator variant
            for c in valid.iter().take(4) {
                let t3: Vec<char> = format!("{}{}{}", a, b, c).chars().collect();
                check_parse(rep, &t3, seed);
                let t4: Vec<char> = format!("{}x{}", a, b).chars().collect();
                check_parse(rep, &t4, seed);
                structured += 2;
            }
        }
    }
    let hexs: Vec<char> = vec!['0', '2', '3', 'a', 'F', '9'];
    let maxd = if p.thorough { 8 } else { 7 };
    for len in 0..=maxd {
        let count = (hexs.len() as u64).pow(len as u32);
        let mut idx = p.shard;
        while idx < count {
            let digits = text_of(&hexs, idx, len);
            let mut t: Vec<char> = vec!['\\', 'u', '{'];
            t.extend(digits.iter());
            t.push('}');
            check_parse(rep, &t, seed);
            t.push('0');
            check_parse(rep, &t, seed);
            if len >= 5 {
                rep.distinct_key(&escape_case(&t));
            }
            structured += 2;
            idx += p.nshards;
        }
    }
    rep.evals(structured);
    rep.count("structured_escape_texts", structured);
    rep.sample(|| "structured: pairs/triples of escape fragments such as \\u{ACG}\\u0041, and \\u{dddddd} for all digit strings up to the stated length".to_string());

    // (3c) long strings: mixtures of 1-, 6-, 7-, 8- and 9-byte tokens so that every buffer alignment occurs;
    //      and the sweep "k plain characters followed by one supplementary-plane character" for k = 0..=300
    if p.shard < 4 {
        let big = [0x10000u32, 0x2FFFF, 0x1F600, 0x20000][p.shard as usize];
        let fillers: [u32; 4] = [0x61, 0xE9, 0x0A, 0x5C];
        for k in 0..=300usize {
            for &f in &fillers {
                let mut w: Vec<u32> = vec![f; k];
                w.push(big);
                w.push(0x62);
                check_print(rep, &w, seed);
            }
        }
        rep.evals(301 * 4);
        rep.inc("long_string_alignment_sweeps");
    }
    {
        let mut rng2 = p.rng(88);
        let nl = p.size(300, 6000);
        for _ in 0..nl {
            let len = 60 + rng2.usize(400);
            let w: Vec<u32> = (0..len)
                .map(|_| match rng2.below(10) {
                    0..=4 => 0x20 + rng2.below(0x5F) as u32,
                    5 => rng2.below(0x20) as u32,
                    6 => 0x80 + rng2.below(0xFF80) as u32,
                    7 | 8 => 0x10000 + rng2.below(0x20000) as u32,
                    _ => *rng2.pick(&[0x22u32, 0x5C, 0x7F, 0xFFFF, 0x10000, 0x2FFFF]),
                })
                .collect();
            check_print(rep, &w, seed);
            rep.eval(Some(&format!("L{}", fnv(&show_str(&w)))));
        }
        rep.count("long_strings_printed", nl);
        // non-ASCII characters before the first backslash of a text
        let (valid, malformed) = escape_fragments();
        for (i, fr) in valid.iter().chain(malformed.iter()).enumerate() {
            if i as u64 % p.nshards != p.shard {
                continue;
            }
            for pre in ["\u{e9}", "\u{4e2d}\u{6587}", "a\u{1F600}b", "\u{e9}\u{e9}\u{e9}"] {
                let t: Vec<char> = format!("{}{}", pre, fr).chars().collect();
                check_parse(rep, &t, seed);
                let t2: Vec<char> = format!("{}{}{}", pre, fr, valid[i % valid.len()]).chars().collect();
                check_parse(rep, &t2, seed);
                rep.evals(2);
            }
        }
    }

    // (4) random long texts and strings
    let mut rng = p.rng(8);
    let nr = p.size(20_000, 400_000);
    for _ in 0..nr {
        let len = rng.usize(40);
        let t: Vec<char> = (0..len)
            .map(|_| match rng.below(12) {
                0..=2 => '\\',
                3 | 4 => 'u',
                5 => '{',
                6 => '}',
                7 => *rng.pick(&['0', '1', '2', '3', '9', 'a', 'f', 'A', 'F']),
                8 => *rng.pick(&['g', 'z', ' ', '"', 'U']),
                9 => char::from_u32(rng.below(0x2FFFF) as u32).unwrap_or('x'),
                _ => *rng.pick(&['0', '2', 'F', 'e']),
            })
            .collect();
        check_parse(rep, &t, seed);
        rep.eval(Some(&escape_case(&t)));
        let w: Vec<u32> = (0..rng.usize(30))
            .map(|_| match rng.below(8) {
                0 | 1 => '\\' as u32,
                2 => 'u' as u32,
                3 => *rng.pick(&['{' as u32, '}' as u32, '"' as u32]),
                4 => *rng.pick(&[0x30, 0x41, 0x66, 0x46]),
                5 => rng.below(0x30000) as u32,
                _ => 0x20 + rng.below(0x5F) as u32,
            })
            .collect();
        check_print(rep, &w, seed);
        rep.eval(Some(&format!("s{}", show_str(&w))));
        rep.sample(|| format!("random text {} / random string {}", show_text(&t), show_str(&w)));
    }
}

pub fn replay(kind: &str, text: &str, seed: u64, rep: &mut Report) -> bool {
    let cps: Vec<u32> = text.split_whitespace().filter_map(|t| u32::from_str_radix(t, 16).ok()).collect();
    match kind {
        "literal" => {
            let t: Vec<char> = cps.iter().filter_map(|&c| char::from_u32(c)).collect();
            check_parse(rep, &t, seed);
            true
        }
        "smtstring" => {
            check_print(rep, &cps, seed);
            true
        }
        _ => false,
    }
}
