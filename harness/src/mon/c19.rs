//! C19 — the derivative closure is enumerated exactly; try_compile honours its state bound.

use super::c01::cfg;
use super::rectx::*;
use crate::gen::reprog::*;
use crate::util::*;
use aws_smt_strings::regular_expressions::RegLan;
use std::collections::HashSet;

const SMALL_LIMIT: usize = 50_000;

const MAXC_: u32 = 0x2FFFF;

pub fn check_term(s: &mut Sess, rep: &mut Report, t: RegLan, k: usize, small_profile: bool) {
    let cap = if small_profile { SMALL_LIMIT } else if s.thorough { 6000 } else { 2000 };
    // pull the iterator item by item: a non-terminating enumeration cannot hang the monitor
    // a partially consumed and dropped enumeration first (every other term), then the real one
    if s.rng.chance(1, 2) {
        let take = 1 + s.rng.usize(5);
        let _ = guard(|| s.m.iter_derivatives(t).take(take).count());
        rep.inc("partial_enumerations_dropped");
    }
    // the iterator hands out references tied to the manager borrow: record (pointer, id) and map back to
    // the manager's own 'static references afterwards
    let mut raw: Vec<(*const aws_smt_strings::regular_expressions::RE, usize)> = Vec::new();
    let mut over = false;
    let mut over_time = false;
    // wall-clock budget (skip only, never a verdict): terms under the bounded-progress verdict get none,
    // their closures have a few dozen elements
    let limit_ms = if small_profile { u64::MAX } else { 4 * CLOSURE_MS.load(std::sync::atomic::Ordering::Relaxed) };
    let t0 = std::time::Instant::now();
    let res = guard(|| {
        let mut it = s.m.iter_derivatives(t);
        loop {
            match it.next() {
                Some(x) => {
                    raw.push((x as *const _, x.verif_id()));
                    if raw.len() > cap {
                        over = true;
                        break;
                    }
                    if raw.len() % 32 == 0 && t0.elapsed().as_millis() as u64 > limit_ms {
                        over_time = true;
                        break;
                    }
                }
                None => break,
            }
        }
    });
    if over_time {
        rep.inc("skipped_derivative_time_budget");
        return;
    }
    if let Err(msg) = res {
        s.viol(rep, "closure", "closure:panic", format!("iter_derivatives({}) panicked: {}", term_text(t), msg), k);
        return;
    }
    if over {
        if small_profile {
            s.viol(rep, "termination", "termination:bounded-progress", format!("iter_derivatives({}) yielded more than {} items on the calibrated small profile", term_text(t), SMALL_LIMIT), k);
        } else {
            rep.inc("skipped_derivative_budget");
        }
        return;
    }
    let table = s.m.verif_terms();
    let mut items: Vec<RegLan> = Vec::new();
    for &(p, id) in &raw {
        if id >= table.len() || !std::ptr::eq(table[id] as *const _, p) {
            s.viol(rep, "closure", "closure:foreign-term", format!("iter_derivatives({}) yields a term (id {}) that the manager does not hold under that id", term_text(t), id), k);
            return;
        }
        items.push(table[id]);
    }
    rep.inc("closures_enumerated");
    rep.max("closure_size", items.len() as u64);
    if small_profile {
        rep.max("closure_size_under_bounded_progress_verdict", items.len() as u64);
    }
    if items.is_empty() || !std::ptr::eq(items[0], t) {
        s.viol(rep, "closure", "closure:first", format!("iter_derivatives({}) does not start with the expression itself", term_text(t)), k);
        return;
    }
    let mut seen: HashSet<*const aws_smt_strings::regular_expressions::RE> = HashSet::new();
    for &x in &items {
        if !seen.insert(x as *const _) {
            s.viol(rep, "closure", "closure:duplicate", format!("iter_derivatives({}) yields {} twice", term_text(t), term_text(x)), k);
            return;
        }
    }
    // closed under char_derivative for every probe character, and nothing but iterated derivatives is yielded:
    // independent BFS with char_derivative on break-point characters
    let mut mine: Vec<RegLan> = vec![t];
    let mut mine_set: HashSet<*const aws_smt_strings::regular_expressions::RE> = HashSet::new();
    mine_set.insert(t as *const _);
    let mut i = 0;
    while i < mine.len() {
        let x = mine[i];
        i += 1;
        // every class of x must be stepped through (the probe list of a term with hundreds of classes is a sample):
        // both ends of every class, the first uncovered character, and the usual probes
        let mut probes = s.probe_chars(x);
        let rs = ranges_of(x);
        if rs.len() > 64 {
            let mut free = 0u32;
            for &(lo, hi) in &rs {
                probes.push(lo);
                probes.push(hi);
                if free == lo {
                    free = hi.saturating_add(1);
                }
            }
            if free <= MAXC_ {
                probes.push(free);
            }
            probes.sort_unstable();
            probes.dedup();
        }
        for c in probes {
            rep.inc("closure_char_probes");
            let d = match guard(|| s.m.char_derivative(x, c)) {
                Ok(d) => d,
                Err(msg) => {
                    s.viol(rep, "closure", "closure:panic", format!("char_derivative({}, {:x}) panicked: {}", term_text(x), c, msg), k);
                    return;
                }
            };
            if !seen.contains(&(d as *const _)) {
                s.viol(rep, "closure", "closure:not-closed", format!("iter_derivatives({}) is not closed: derivative of {} w.r.t. {:x} = {} was not yielded", term_text(t), term_text(x), c, term_text(d)), k);
                return;
            }
            if mine_set.insert(d as *const _) {
                mine.push(d);
            }
        }
        if mine.len() > items.len() {
            break;
        }
    }
    if mine.len() != items.len() {
        s.viol(rep, "closure", "closure:extra", format!("iter_derivatives({}) yields {} terms but only {} are iterated derivatives", term_text(t), items.len(), mine.len()), k);
        return;
    }
    let count = items.len();
    // the iterator obeys the iterator laws: same sequence again, count, nth, last, the rest after partial consumption
    if count <= 300 {
        rep.inc("iterator_law_checks");
        fn ptr(x: &aws_smt_strings::regular_expressions::RE) -> usize {
            x as *const aws_smt_strings::regular_expressions::RE as usize
        }
        let want: Vec<_> = items.iter().map(|&x| ptr(x)).collect();
        let r = guard(|| -> Result<(), String> {
            let again: Vec<_> = s.m.iter_derivatives(t).map(ptr).collect();
            if again != want {
                return Err("a second enumeration yields a different sequence".into());
            }
            if s.m.iter_derivatives(t).count() != count {
                return Err("count() differs from the number of items yielded".into());
            }
            let mut it = s.m.iter_derivatives(t);
            for used in 0..=count {
                if it.next().map(ptr) != want.get(used).copied() {
                    return Err(format!("item {} differs", used));
                }
            }
            drop(it);
            for k in [0, count / 2, count - 1, count] {
                if s.m.iter_derivatives(t).nth(k).map(ptr) != want.get(k).copied() {
                    return Err(format!("nth({}) is not item {}", k, k));
                }
                let mut it = s.m.iter_derivatives(t);
                let _ = it.nth(k);
                if it.count() != count.saturating_sub(k + 1) {
                    return Err(format!("after nth({}) the rest does not have {} items", k, count.saturating_sub(k + 1)));
                }
            }
            if s.m.iter_derivatives(t).last().map(ptr) != want.last().copied() {
                return Err("last() is not the last item".into());
            }
            Ok(())
        });
        match r {
            Ok(Ok(())) => {}
            Ok(Err(e)) => {
                s.viol(rep, "closure", "closure:iterator", format!("iter_derivatives({}): {}", term_text(t), e), k);
                return;
            }
            Err(msg) => {
                s.viol(rep, "closure", "closure:panic", format!("iter_derivatives({}) panicked in an iterator adaptor: {}", term_text(t), msg), k);
                return;
            }
        }
    }
    // the Myhill-Nerode index is a lower bound for the number of distinct derivatives
    if let Ok(d) = s.ctx.term_dfa(t) {
        if count < d.n() {
            s.viol(rep, "closure", "closure:below-nerode", format!("{} has {} derivatives but its language needs {} states", term_text(t), count, d.n()), k);
        }
        rep.inc("nerode_bound_checked");
    }
    // try_compile(e, n) is Some exactly when n >= count
    let mut bounds = vec![0usize, 1, count.saturating_sub(1), count, count + 1, 2 * count, usize::MAX];
    if usize::BITS >= 64 && count <= 400 {
        // bounds whose low 32 bits are small (a bound must not be truncated to 32 bits)
        let b32 = 1usize << 32;
        bounds.extend([u32::MAX as usize, b32, b32 + 1, b32 + count.saturating_sub(1), b32 + count, 1usize << 40, (1usize << 48) + 2]);
    }
    bounds.sort_unstable();
    bounds.dedup();
    for n in bounds {
        if count > 400 && n >= count && n != count {
            continue; // keep big compilations to one
        }
        rep.inc("try_compile_bound_probes");
        match guard(|| s.m.try_compile(t, n)) {
            Ok(r) => {
                let want_some = n >= count && n > 0;
                match (r, want_some) {
                    (Some(a), true) => {
                        if a.num_states() != count {
                            s.viol(rep, "bound", "bound:num-states", format!("try_compile({}, {}) has {} states, the expression has {} distinct derivatives", term_text(t), n, a.num_states(), count), k);
                            return;
                        }
                    }
                    (None, false) => {}
                    (Some(a), false) => {
                        s.viol(rep, "bound", "bound:some-below-count", format!("try_compile({}, {}) returned an automaton ({} states) although the expression has {} distinct derivatives", term_text(t), n, a.num_states(), count), k);
                        return;
                    }
                    (None, true) => {
                        s.viol(rep, "bound", "bound:none-at-or-above-count", format!("try_compile({}, {}) returned None although the expression has only {} distinct derivatives", term_text(t), n, count), k);
                        return;
                    }
                }
            }
            Err(msg) => {
                s.viol(rep, "bound", "bound:panic", format!("try_compile({}, {}) panicked: {}", term_text(t), n, msg), k);
                return;
            }
        }
    }
    if count <= 400 {
        match guard(|| s.m.compile(t).num_states()) {
            Ok(n) => {
                if n != count {
                    s.viol(rep, "bound", "bound:compile-num-states", format!("compile({}) has {} states, the expression has {} distinct derivatives", term_text(t), n, count), k);
                }
            }
            Err(msg) => s.viol(rep, "bound", "bound:panic", format!("compile({}) panicked: {}", term_text(t), msg), k),
        }
    }
}

/// after every term of the program went through failing and succeeding bounded compilations: the exact bound
/// of each (small) term must still succeed and one less must still fail
fn reask_bounds(s: &mut Sess, rep: &mut Report) {
    for k in (0..s.run.terms.len()).rev() {
        let t = s.run.terms[k];
        let count = match closure_size(&mut s.m, t, 60) {
            Some(n) => n,
            None => continue,
        };
        rep.inc("bounds_reasked_after_history");
        match guard(|| (s.m.try_compile(t, count).map(|a| a.num_states()), s.m.try_compile(t, count - 1).is_some())) {
            Ok((at, below)) => {
                if at != Some(count) || below {
                    s.viol(rep, "bound", "bound:history-dependent", format!("asked again after other bounded compilations: try_compile({}, {}) gives {:?} states, try_compile(.., {}) is Some = {}; the expression has {} distinct derivatives", term_text(t), count, at, count - 1, below, count), k);
                    return;
                }
            }
            Err(msg) => {
                s.viol(rep, "bound", "bound:panic", format!("try_compile panicked when asked again: {}", msg), k);
                return;
            }
        }
    }
}

pub fn check_program(prog: &Program, seed: u64, thorough: bool, small: bool, rep: &mut Report) {
    let c = cfg(thorough);
    let mut s = Sess::start(prog, seed, thorough, c.budget, c.noise, rep);
    let before = rep.violation_count;
    for k in 0..s.run.terms.len() {
        let t = s.run.terms[k];
        let nontrivial = s.run.refs[k].size() >= 3;
        let key = s.run.refs[k].show();
        rep.eval(if nontrivial { Some(&key) } else { None });
        // the bounded-progress verdict is only claimed for terms of expanded alphabetic width <= 8
        // (no counting loop or concatenation can then make the derivative closure large; see DESIGN.md 9.5)
        let narrow = s.run.refs[k].expanded_width() <= 8;
        if small && narrow {
            rep.inc("terms_under_bounded_progress_verdict");
        }
        check_term(&mut s, rep, t, k, small && narrow);
    }
    if rep.violation_count == before {
        reask_bounds(&mut s, rep);
    }
}

pub fn run(p: &Params, rep: &mut Report) {
    if p.shard == 7 {
        // operand and class counts beyond 2^10 (and, for one term, beyond 2^16)
        for n in if p.thorough { vec![1100u32, 2100, 4200, 1300 + (p.seed as u32 * 37) % 1700] } else { vec![1100u32, 301 + (p.seed as u32 * 397) % 1700] } {
            super::ladder::wide_union(rep, "C19", n, p.seed);
        }
    }
    if p.shard == 4 {
        let n = if p.thorough { super::scale::N_THOROUGH } else { super::scale::N_QUICK };
        super::scale::c19(rep, n, p.seed);
    }
    if p.shard == 6 {
        for centre in [256, 65536] {
            super::ladder::traversal_gap(rep, super::ladder::Trav::Iter, centre, p.seed);
            super::ladder::traversal_gap(rep, super::ladder::Trav::Compile, centre, p.seed);
        }
    }
    for_firstchar_programs(p, rep, p.size(25, 250), |prog, seed, rep| check_program(prog, seed, p.thorough, false, rep));
    for_max_loop_programs(p, rep, p.size(6, 60), |prog, seed, rep| check_program(prog, seed, p.thorough, false, rep));
    let stride = 1;
    for_tiny_programs(p, rep, stride, p.size(150, 3000), |prog, seed, rep| check_program(prog, seed, p.thorough, true, rep));
    let n = p.size(120, 1200);
    for_programs(p, rep, 19, n, &STD_WEIGHTS, (15, 40), |prog, seed, rep| check_program(prog, seed, p.thorough, false, rep));
    // bounded-progress restatement of termination on the calibrated small profile
    let n2 = p.size(300, 3000);
    let small = [(Profile::Small, 1)];
    for_programs(p, rep, 20, n2, &small, (6, 12), |prog, seed, rep| {
        rep.inc("small_profile_programs");
        check_program(prog, seed ^ 1, p.thorough, true, rep)
    });
}

pub fn replay(kind: &str, text: &str, seed: u64, rep: &mut Report) -> bool {
    if kind == "scale" {
        super::scale::c19(rep, text.trim().parse().unwrap_or(super::scale::N_QUICK), seed);
        return true;
    }
    if kind != KIND_MGR {
        return false;
    }
    // small-profile cases carry an odd seed
    replay_program(text, rep, |p, rep| check_program(p, seed, false, p.ops.len() <= 12 && p.points.len() <= 3, rep))
}
