//! Deep inputs run in a child process on an ordinary (default-size) main-thread stack: a crash of the child
//! (stack overflow, abort) cannot be caught in-process, so the parent shard observes the exit status.
//! Sizes are ones the unchanged crate handles comfortably.

use crate::util::*;
use aws_smt_strings::automata::AutomatonBuilder;
use aws_smt_strings::character_sets::CharSet;
use aws_smt_strings::regular_expressions::ReManager;
use aws_smt_strings::smt_strings::SmtString;

/// child side: returns the line to print
pub fn child(kind: &str, n: usize) -> Result<String, String> {
    match kind {
        "auto-chain" => {
            // q0 -a-> q1 -a-> ... -a-> q(n-1) (final); everything else -> sink; 3 unreachable states
            let sink = u32::MAX;
            let mut b: AutomatonBuilder<u32> = AutomatonBuilder::new(&0);
            let a = CharSet::singleton('a' as u32);
            for i in 0..(n as u32 - 1) {
                b.add_transition(&i, &a, &(i + 1));
                b.set_default_successor(&i, &sink);
            }
            b.set_default_successor(&(n as u32 - 1), &sink);
            b.mark_final(&(n as u32 - 1));
            b.set_default_successor(&sink, &sink);
            for u in 0..3u32 {
                b.add_transition(&(sink - 1 - u), &a, &0);
                b.set_default_successor(&(sink - 1 - u), &sink);
            }
            let mut auto = b.build().map_err(|e| format!("build failed: {}", e))?;
            let before = auto.num_states();
            let table = auto.compile_successors();
            let alpha = auto.pick_alphabet();
            // the table agrees with next() on the first, middle and last chain state (all alphabet letters)
            let mut table_ok = table.num_states() == before && table.alphabet_size() == alpha.len();
            for &st in &[0usize, n / 2, n - 1] {
                let s = auto.state(st);
                for (k, &ch) in alpha.iter().enumerate() {
                    table_ok &= table.eval(st as u32, k as u32) == auto.next(s, ch).id() as u32;
                }
            }
            auto.remove_unreachable_states();
            let pruned = auto.num_states();
            auto.minimize();
            let minimized = auto.num_states();
            let w: Vec<u32> = vec!['a' as u32; n - 1];
            let acc = auto.accepts(&SmtString::from(&w[..]));
            let rej = auto.accepts(&SmtString::from(&w[..n - 2]));
            let finals = auto.final_states().count();
            let edges_ok = auto.states().all(|s| auto.edges(s).all(|(cid, t)| auto.class_next(s, cid).id() == t.id()));
            Ok(format!("ok before={} pruned={} minimized={} accepts={} rejects_shorter={} finals={} edges_ok={} table_ok={}", before, pruned, minimized, acc, !rej, finals, edges_ok, table_ok))
        }
        "re-literal" => {
            // a long literal (no period) compiled, queried, and used in a union with a sibling literal
            let mut m = ReManager::new();
            let mut x: u32 = 12345;
            let w: Vec<u32> = (0..n)
                .map(|_| {
                    x = x.wrapping_mul(1103515245).wrapping_add(12345);
                    'a' as u32 + ((x >> 16) % 3)
                })
                .collect();
            let sw = SmtString::from(&w[..]);
            let e = m.str(&sw);
            let member = m.str_in_re(&sw, e);
            let nonmember = m.str_in_re(&SmtString::from(&w[..n - 1]), e);
            let auto = m.compile(e);
            let states = auto.num_states();
            let acc = auto.accepts(&sw);
            let empty = m.is_empty_re(e);
            let wit = m.get_string(e).map(|s| s == sw).unwrap_or(false);
            let mut w2 = w.clone();
            w2[n / 2] = 'z' as u32;
            let e2 = m.str(&SmtString::from(&w2[..]));
            let u = m.union(e, e2);
            let in_u = m.str_in_re(&sw, u) && m.str_in_re(&SmtString::from(&w2[..]), u);
            let star = m.star(u);
            let mut ww = w.clone();
            ww.extend_from_slice(&w2);
            let in_star = m.str_in_re(&SmtString::from(&ww[..]), star);
            let d = m.str_derivative(e, &SmtString::from(&w[..n - 1]));
            let last = m.char(w[n - 1]);
            // a literal of n characters needs n + 2 states (n + 1 prefixes and the dead state); more is not wrong
            Ok(format!("ok member={} nonmember={} states_at_least_n_plus_2={} accepts={} empty={} witness={} union={} star={} deriv={}", member, !nonmember, states >= n + 2, acc, empty, wit, in_u, in_star, std::ptr::eq(d, last)))
        }
        "re-chain" => {
            // the scale probes (a.b^N and friends) on an ordinary stack
            let mut rep = Report::new("deep", "");
            super::scale::c18(&mut rep, n as u32, 0);
            super::scale::c05(&mut rep, n as u32, 0);
            super::scale::c19(&mut rep, n as u32, 0);
            if rep.violation_count == 0 {
                Ok("ok".to_string())
            } else {
                Ok(format!("wrong: {}", rep.violations[0].detail))
            }
        }
        _ => Err(format!("unknown deep kind {}", kind)),
    }
}

/// parent side: spawn the child, judge its exit status and output
pub fn probe(rep: &mut Report, kind: &str, n: usize, expect: &str, rule_prefix: &str, seed: u64) {
    let exe = match std::env::current_exe() {
        Ok(e) => e,
        Err(e) => {
            rep.harness_error(format!("current_exe: {}", e));
            return;
        }
    };
    rep.inc("deep_probes");
    let case = format!("{} {}", kind, n);
    let out = std::process::Command::new(exe).args(["deep", kind, &n.to_string()]).output();
    match out {
        Err(e) => rep.harness_error(format!("cannot spawn deep probe: {}", e)),
        Ok(o) => {
            let stdout = String::from_utf8_lossy(&o.stdout).trim().to_string();
            let stderr = String::from_utf8_lossy(&o.stderr);
            if !o.status.success() {
                let how = match o.status.code() {
                    Some(c) => format!("exit code {}", c),
                    None => "killed by a signal (stack overflow or abort)".to_string(),
                };
                rep.violation(
                    &format!("{}-deep", rule_prefix),
                    &format!("{}-deep:{}:crash", rule_prefix, kind),
                    format!("the crate crashed on a deep but ordinary input ({} with n = {}) when run on a default-size stack: {}; stderr: {}", kind, n, how, short(stderr.trim(), 300)),
                    "deep",
                    &case,
                    seed,
                );
            } else if stdout != expect {
                rep.violation(&format!("{}-deep", rule_prefix), &format!("{}-deep:{}:wrong", rule_prefix, kind), format!("deep input {} n = {}: got `{}`, expected `{}`", kind, n, stdout, expect), "deep", &case, seed);
            } else {
                rep.inc("deep_probes_ok");
            }
        }
    }
}

pub fn expect_auto_chain(n: usize) -> String {
    // n chain states + sink + 3 unreachable; pruned: n + 1; all chain states are pairwise distinguishable
    format!("ok before={} pruned={} minimized={} accepts=true rejects_shorter=true finals=1 edges_ok=true table_ok=true", n + 4, n + 1, n + 1)
}

pub fn expect_re_literal(n: usize) -> String {
    let _ = n;
    "ok member=true nonmember=true states_at_least_n_plus_2=true accepts=true empty=false witness=true union=true star=true deriv=true".to_string()
}
