//! C03 — derivatives are left quotients; every derivative class is uniform; set_derivative /
//! class_derivative accept exactly what they must.

use super::c01::cfg;
use super::rectx::*;
use crate::gen::reprog::*;
use crate::oracle::re::*;
use crate::util::*;
use aws_smt_strings::character_sets::{CharSet, ClassId};
use aws_smt_strings::errors::Error;
use aws_smt_strings::regular_expressions::RegLan;
use aws_smt_strings::smt_strings::SmtString;

/// is L(d) == c^-1 L(t)?  Ok(None) = yes, Ok(Some(word)) = counterexample continuation, Err = over budget
fn quotient_diff(s: &mut Sess, t: RegLan, c: u32, d: RegLan) -> Result<Option<Vec<u32>>, ()> {
    let rt = s.ctx.sref(t);
    let rd = s.ctx.sref(d);
    let (dt, dd) = s.ctx.pair(&rt, &rd).map_err(|_| ())?;
    let atoms = s.ctx.atoms();
    let q = dt.step(dt.start, atoms.of(c));
    Ok(dt.diff_from(q, &dd, dd.start).map(|w| atoms.word(&w)))
}

/// fallback when the reference DFA is over budget: DP matcher on continuation words
fn quotient_diff_dp(s: &mut Sess, t: RegLan, c: u32, d: RegLan, words: &[Vec<u32>]) -> Option<Vec<u32>> {
    let rt = s.ctx.sref(t);
    let rd = s.ctx.sref(d);
    // very large terms (wide unions under other operators): a handful of continuation words only
    let cap = if rt.size() + rd.size() > 300 { 4 } else { usize::MAX };
    for w in words.iter().filter(|w| w.len() <= 5).take(cap) {
        let mut cw = vec![c];
        cw.extend_from_slice(w);
        if dp_matches(&rt, &cw) != dp_matches(&rd, w) {
            return Some(w.clone());
        }
    }
    None
}

fn check_quotient(s: &mut Sess, rep: &mut Report, t: RegLan, c: u32, d: RegLan, k: usize, rule: &str, what: &str, words: &[Vec<u32>]) -> bool {
    match quotient_diff(s, t, c, d) {
        Ok(None) => {
            rep.inc("quotients_decided_by_refdfa");
            true
        }
        Ok(Some(w)) => {
            // confirm with oracle A
            let rt = s.ctx.sref(t);
            let rd = s.ctx.sref(d);
            let mut cw = vec![c];
            cw.extend_from_slice(&w);
            if cw.len() <= 10 && dp_matches(&rt, &cw) == dp_matches(&rd, &w) {
                rep.harness_error(format!("oracle A/B disagree on quotient of {} by {:x}", rt.show(), c));
                return true;
            }
            s.viol(rep, rule, &format!("{}:{}", rule, what), format!("{}: derivative of {} w.r.t. char {:x} is {} which differs from the left quotient on continuation {}", what, term_text(t), c, term_text(d), show_str(&w)), k);
            false
        }
        Err(()) => {
            rep.inc("quotients_checked_by_dp_only");
            match quotient_diff_dp(s, t, c, d, words) {
                None => true,
                Some(w) => {
                    s.viol(rep, rule, &format!("{}:{}", rule, what), format!("{}: derivative of {} w.r.t. char {:x} is {} which differs from the left quotient on continuation {} (DP oracle)", what, term_text(t), c, term_text(d), show_str(&w)), k);
                    false
                }
            }
        }
    }
}

fn class_chars(ranges: &[(u32, u32)], cid: ClassId, probes: &[u32]) -> Vec<u32> {
    probes
        .iter()
        .copied()
        .filter(|&c| match (cid, class_by_scan(ranges, c)) {
            (ClassId::Interval(i), Some(j)) => i == j,
            (ClassId::Complement, None) => true,
            _ => false,
        })
        .collect()
}

pub fn check_term(s: &mut Sess, rep: &mut Report, t: RegLan, k: usize, words: &[Vec<u32>]) {
    s.align_to(t);
    let ranges = ranges_of(t);
    let probes = s.probe_chars(t);
    let n = ranges.len();
    // the exposed intervals must be sorted and disjoint, otherwise "class of a character" is ill-defined
    for i in 1..n {
        if ranges[i - 1].1 >= ranges[i].0 {
            s.viol(rep, "classes", "classes:overlap", format!("derivative classes of {} overlap or are unsorted: {:x?}", term_text(t), ranges), k);
            return;
        }
    }
    let comp_nonempty = {
        let mut covered: u64 = 0;
        for &(a, b) in &ranges {
            covered += (b - a + 1) as u64;
        }
        covered < (MAXC as u64 + 1)
    };
    // class ids cover the alphabet: exactly Interval(0..n) plus Complement iff some character is uncovered
    let ids: Vec<ClassId> = t.class_ids().collect();
    let mut want: Vec<ClassId> = (0..n).map(ClassId::Interval).collect();
    if comp_nonempty {
        want.push(ClassId::Complement);
    }
    if ids != want || t.num_deriv_classes() != n || t.empty_complement() == comp_nonempty {
        s.viol(rep, "classes", "classes:ids", format!("class ids of {} are {:?}, expected {:?} (empty_complement={})", term_text(t), ids, want, t.empty_complement()), k);
        return;
    }
    rep.inc("terms_checked");
    if let Err(e) = iter_laws(|| t.class_ids()).and(iter_laws(|| t.char_ranges())) {
        s.viol(rep, "classes", "classes:iterator", format!("class_ids() / char_ranges() of {}: {}", term_text(t), e), k);
        return;
    }

    // class_derivative on every valid id, compared with the quotient for EVERY probe character of the class
    // terms with very many classes (wide unions): the classes at both ends, those whose index is next to a power of
    // two, and a random sample (each class derivative is a different large term for the reference engine)
    let sel: Vec<ClassId> = if want.len() <= 48 {
        want.clone()
    } else {
        let mut idx: Vec<usize> = vec![0, 1, 2, n - 1, n.saturating_sub(2)];
        let mut p = 8usize;
        while p <= n + 1 {
            for d in [p - 2, p - 1, p, p + 1] {
                if d < n {
                    idx.push(d);
                }
            }
            p *= 2;
        }
        for _ in 0..16 {
            idx.push(s.rng.usize(n));
        }
        idx.sort_unstable();
        idx.dedup();
        rep.inc("terms_with_sampled_classes");
        let mut v: Vec<ClassId> = idx.into_iter().map(ClassId::Interval).collect();
        if comp_nonempty {
            v.push(ClassId::Complement);
        }
        v
    };
    for &cid in &sel {
        let r = match guard(|| s.m.class_derivative(t, cid)) {
            Ok(Ok(r)) => r,
            Ok(Err(e)) => {
                s.viol(rep, "class-derivative", "class-derivative:rejects-valid", format!("class_derivative({}, {}) = Err({})", term_text(t), cid, e), k);
                continue;
            }
            Err(msg) => {
                s.viol(rep, "class-derivative", "class-derivative:panic", format!("class_derivative({}, {}) panicked: {}", term_text(t), cid, msg), k);
                continue;
            }
        };
        match guard(|| s.m.class_derivative_unchecked(t, cid)) {
            Ok(u) => {
                rep.inc("unchecked_variant_probes");
                if !std::ptr::eq(u, r) {
                    s.viol(rep, "class-derivative", "class-derivative:unchecked-differs", format!("class_derivative_unchecked({}, {}) = {} but class_derivative gives {}", term_text(t), cid, term_text(u), term_text(r)), k);
                }
            }
            Err(msg) => s.viol(rep, "class-derivative", "class-derivative:unchecked-panic", format!("class_derivative_unchecked({}, {}) panicked on a valid class: {}", term_text(t), cid, msg), k),
        }
        let mut chars = class_chars(&ranges, cid, &probes);
        if chars.is_empty() {
            // the probe list of a term with hundreds of classes is a sample: fall back to the class's own end points
            match cid {
                ClassId::Interval(i) => chars.extend_from_slice(&[ranges[i].0, ranges[i].1]),
                ClassId::Complement => {
                    let mut c = 0u32;
                    for &(a, b) in &ranges {
                        if c < a {
                            break;
                        }
                        c = b + 1;
                    }
                    chars.push(c);
                }
            }
            chars.dedup();
        }
        for &c in &chars {
            rep.inc("class_char_probes");
            if !check_quotient(s, rep, t, c, r, k, "class-uniformity", "class_derivative", words) {
                break;
            }
            // char_derivative must agree as well
            match guard(|| s.m.char_derivative(t, c)) {
                Ok(d) => {
                    if !std::ptr::eq(d, r) && !check_quotient(s, rep, t, c, d, k, "char-derivative", "char_derivative", words) {
                        break;
                    }
                }
                Err(msg) => {
                    s.viol(rep, "char-derivative", "char-derivative:panic", format!("char_derivative({}, {:x}) panicked: {}", term_text(t), c, msg), k);
                    break;
                }
            }
        }
    }

    // sampled full-alphabet sweep: EVERY character's derivative is the derivative of its class (same object)
    let sweep_one_in = if s.thorough { 12 } else { 120 };
    if s.rng.usize(sweep_one_in) == 0 {
        let mut class_terms: Vec<Option<RegLan>> = vec![None; n + 1];
        let mut ok = true;
        for c in 0..=MAXC {
            let idx = class_by_scan(&ranges, c).unwrap_or(n);
            let d = s.m.char_derivative(t, c);
            match class_terms[idx] {
                None => class_terms[idx] = Some(d),
                Some(x) => {
                    if !std::ptr::eq(x, d) {
                        s.viol(rep, "class-uniformity", "class-uniformity:sweep", format!("full sweep of {}: character {:x} has derivative {} but another character of its class has {}", term_text(t), c, term_text(d), term_text(x)), k);
                        ok = false;
                        break;
                    }
                }
            }
        }
        if ok {
            rep.inc("full_alphabet_sweeps");
            rep.count("full_alphabet_sweep_probes", MAXC as u64 + 1);
        }
    }

    // invalid class ids are rejected with BadClassId
    let mut bad = vec![ClassId::Interval(n), ClassId::Interval(n + 1 + s.rng.usize(5)), ClassId::Interval(usize::MAX)];
    if !comp_nonempty {
        bad.push(ClassId::Complement);
    }
    for cid in bad {
        rep.inc("invalid_class_id_probes");
        match guard(|| s.m.class_derivative(t, cid)) {
            Ok(Err(Error::BadClassId)) => {}
            Ok(other) => s.viol(rep, "bad-class-id", "bad-class-id:accepted", format!("class_derivative({}, {}) = {:?}, expected Err(BadClassId)", term_text(t), cid, other.map(term_text)), k),
            Err(msg) => s.viol(rep, "bad-class-id", "bad-class-id:panic", format!("class_derivative({}, {}) panicked: {}", term_text(t), cid, msg), k),
        }
    }

    // set_derivative over all pairs of break points
    let mut bps: Vec<u32> = vec![0, MAXC];
    for &(a, b) in &ranges {
        for x in [a.saturating_sub(1), a, a + (b - a) / 2, b, (b + 1).min(MAXC)] {
            bps.push(x);
        }
    }
    bps.sort_unstable();
    bps.dedup();
    let mut pairs: Vec<(u32, u32)> = Vec::new();
    for i in 0..bps.len() {
        for j in i..bps.len() {
            pairs.push((bps[i], bps[j]));
        }
    }
    let max_pairs = if s.thorough { 400 } else { 120 };
    if pairs.len() > max_pairs {
        s.rng.shuffle(&mut pairs);
        pairs.truncate(max_pairs);
    }
    for (a, b) in pairs {
        rep.inc("set_derivative_probes");
        // by definition
        let inside = ranges.iter().position(|&(x, y)| x <= a && b <= y);
        let meets_any = ranges.iter().any(|&(x, y)| !(b < x || y < a));
        let set = CharSet::range(a, b);
        let res = match guard(|| s.m.set_derivative(t, &set)) {
            Ok(r) => r,
            Err(msg) => {
                s.viol(rep, "set-derivative", "set-derivative:panic", format!("set_derivative({}, [{:x},{:x}]) panicked: {}", term_text(t), a, b, msg), k);
                break;
            }
        };
        let should_be_ok = inside.is_some() || !meets_any;
        match (res, should_be_ok) {
            (Ok(d), true) => {
                if a % 3 == 0 {
                    match guard(|| s.m.set_derivative_unchecked(t, &set)) {
                        Ok(u) => {
                            rep.inc("unchecked_variant_probes");
                            if !std::ptr::eq(u, d) {
                                s.viol(rep, "set-derivative", "set-derivative:unchecked-differs", format!("set_derivative_unchecked({}, [{:x},{:x}]) differs from set_derivative", term_text(t), a, b), k);
                                break;
                            }
                        }
                        Err(msg) => {
                            s.viol(rep, "set-derivative", "set-derivative:unchecked-panic", format!("set_derivative_unchecked({}, [{:x},{:x}]) panicked on a set inside one class: {}", term_text(t), a, b, msg), k);
                            break;
                        }
                    }
                }
                // the common derivative: compare with the quotient for both end points
                if !check_quotient(s, rep, t, a, d, k, "set-derivative", "set_derivative", words) {
                    break;
                }
                if a != b && !check_quotient(s, rep, t, b, d, k, "set-derivative", "set_derivative", words) {
                    break;
                }
            }
            (Err(_), false) => {}
            (Ok(d), false) => {
                s.viol(rep, "set-derivative", "set-derivative:accepts-straddling-set", format!("set_derivative({}, [{:x},{:x}]) = Ok({}) although the set meets more than one class (classes {:x?})", term_text(t), a, b, term_text(d), ranges), k);
                break;
            }
            (Err(e), true) => {
                s.viol(rep, "set-derivative", "set-derivative:rejects-good-set", format!("set_derivative({}, [{:x},{:x}]) = Err({}) although the set lies in one class (classes {:x?})", term_text(t), a, b, e, ranges), k);
                break;
            }
        }
    }

    // str_derivative composes along a word
    let nw = if s.thorough { 6 } else { 3 };
    for _ in 0..nw {
        let w = s.rng.pick(words).clone();
        if w.is_empty() {
            continue;
        }
        let sw = SmtString::from(&w[..]);
        let d = match guard(|| s.m.str_derivative(t, &sw)) {
            Ok(d) => d,
            Err(msg) => {
                s.viol(rep, "str-derivative", "str-derivative:panic", format!("str_derivative panicked: {}", msg), k);
                break;
            }
        };
        rep.inc("str_derivative_probes");
        let rt = s.ctx.sref(t);
        let rd = s.ctx.sref(d);
        if let Ok((dt, dd)) = s.ctx.pair(&rt, &rd) {
            let atoms = s.ctx.atoms();
            let q = dt.run(dt.start, &atoms.word_of(&w));
            if let Some(cex) = dt.diff_from(q, &dd, dd.start) {
                let cexw = atoms.word(&cex);
                s.viol(rep, "str-derivative", "str-derivative:quotient", format!("str_derivative({}, {}) = {} differs from the iterated quotient on {}", term_text(t), show_str(&w), term_text(d), show_str(&cexw)), k);
                break;
            }
        }
    }
}

/// walk the derivative cache: every key (e, cid) is re-queried through the public API and judged
fn walk_cache(s: &mut Sess, rep: &mut Report, words: &[Vec<u32>]) {
    let mut entries = s.m.verif_deriv_cache();
    rep.count("cache_entries_seen", entries.len() as u64);
    let cap = if s.thorough { 600 } else { 150 };
    if entries.len() > cap {
        s.rng.shuffle(&mut entries);
        entries.truncate(cap);
    }
    let last = s.run.terms.len().saturating_sub(1);
    for (e, cid, _cached) in entries {
        if !e.valid_class_id(cid) {
            rep.violation("cache", "cache:invalid-key", format!("cache holds key ({}, {}) which is not a valid class of the term", term_text(e), cid), KIND_MGR, &s.prog.to_text(), s.seed);
            continue;
        }
        s.align_to(e);
        let ranges = ranges_of(e);
        let r = match guard(|| s.m.class_derivative(e, cid)) {
            Ok(Ok(r)) => r,
            _ => continue,
        };
        // probe characters of that class: both ends (interval) or the first and last uncovered characters (complement)
        let chars: Vec<u32> = match cid {
            ClassId::Interval(i) => vec![ranges[i].0, ranges[i].1],
            ClassId::Complement => {
                let mut v = Vec::new();
                let mut c = 0u32;
                for &(a, b) in &ranges {
                    if c < a {
                        v.push(c);
                        v.push(a - 1);
                    }
                    c = b + 1;
                }
                if c <= MAXC {
                    v.push(c);
                    v.push(MAXC);
                }
                v.sort_unstable();
                v.dedup();
                if v.len() > 4 {
                    vec![v[0], v[1], v[v.len() - 2], v[v.len() - 1]]
                } else {
                    v
                }
            }
        };
        for c in chars {
            rep.inc("cache_entry_probes");
            // the case text of a cache entry is the whole program (the entry may stem from any step)
            if !check_quotient(s, rep, e, c, r, last, "cache", "cache-entry", words) {
                break;
            }
        }
    }
}

pub fn check_program(prog: &Program, seed: u64, thorough: bool, rep: &mut Report) {
    let c = cfg(thorough);
    let mut s = Sess::start(prog, seed, thorough, c.budget, c.noise, rep);
    let mut rng = s.rng.clone();
    let words = super::c01::words_for(&s.ctx, &mut rng, &c);
    for k in 0..s.run.terms.len() {
        let t = s.run.terms[k];
        let nontrivial = s.run.refs[k].size() >= 3;
        let key = s.run.refs[k].show();
        rep.eval(if nontrivial { Some(&key) } else { None });
        check_term(&mut s, rep, t, k, &words);
    }
    // populate the cache the way users do (compile / emptiness on some results), then walk it
    for k in 0..s.run.terms.len() {
        if rng.chance(1, 4) {
            let t = s.run.terms[k];
            if closure_size(&mut s.m, t, 300).is_some() {
                let _ = guard(|| s.m.compile(t));
            }
        }
    }
    walk_cache(&mut s, rep, &words);
    rep.count("refdfa_built", s.ctx.eng.built);
    rep.count("refdfa_over_budget_events", s.ctx.eng.over_budget);
}

pub fn run(p: &Params, rep: &mut Report) {
    if p.shard == 7 {
        // operand and class counts beyond 2^10 (and, for one term, beyond 2^16)
        for n in if p.thorough { vec![1100u32, 2100, 4200, 1300 + (p.seed as u32 * 37) % 1700] } else { vec![1100u32, 301 + (p.seed as u32 * 397) % 1700] } {
            super::ladder::wide_union(rep, "C03", n, p.seed);
        }
        // first letters 0, 1, 2, ...: the class index of a character is the character itself (256+ classes)
        super::ladder::wide_union_from(rep, "C03", 300, 0, p.seed);
        super::ladder::wide_tree(rep, "C03", 65_600, p.seed);
    }
    for_firstchar_programs(p, rep, p.size(25, 250), |prog, seed, rep| check_program(prog, seed, p.thorough, rep));
    for_max_loop_programs(p, rep, p.size(6, 60), |prog, seed, rep| check_program(prog, seed, p.thorough, rep));
    let stride = 1;
    for_tiny_programs(p, rep, stride, p.size(150, 3000), |prog, seed, rep| check_program(prog, seed, p.thorough, rep));
    let n = p.size(100, 1000);
    for_programs(p, rep, 3, n, &STD_WEIGHTS, (15, 40), |prog, seed, rep| check_program(prog, seed, p.thorough, rep));
}

pub fn replay(kind: &str, text: &str, seed: u64, rep: &mut Report) -> bool {
    if kind != KIND_MGR {
        return false;
    }
    replay_program(text, rep, |p, rep| check_program(p, seed, false, rep))
}
