//! C10 — regex replace uses the leftmost, then shortest, match as SMT-LIB defines.

use super::c01::cfg;
use super::rectx::*;
use crate::gen::reprog::*;
use crate::oracle::re::*;
use crate::util::*;
use aws_smt_strings::regular_expressions::RegLan;
use aws_smt_strings::smt_regular_expressions as w;
use aws_smt_strings::smt_strings::SmtString;

pub const KIND_WRAP: &str = "reprog-wrap";

/// match table by oracle A: m[i][j] = w[i..j] in L(r)
fn table_dp(r: &Ref, wd: &[u32]) -> Vec<Vec<bool>> {
    let n = wd.len();
    let mut dp = DpMatcher::new(wd);
    (0..=n).map(|i| (0..=n).map(|j| j >= i && dp.m(r, i, j)).collect()).collect()
}

/// match table by oracle B
fn table_dfa(d: &Dfa, atoms: &Atoms, wd: &[u32]) -> Vec<Vec<bool>> {
    let n = wd.len();
    let aw = atoms.word_of(wd);
    let mut t = vec![vec![false; n + 1]; n + 1];
    for i in 0..=n {
        let mut s = d.start;
        t[i][i] = d.f[s as usize];
        for j in i..n {
            s = d.step(s, aw[j]);
            t[i][j + 1] = d.f[s as usize];
        }
    }
    t
}

/// str.replace_re: shortest u1, then shortest w1 (possibly empty) with w = u1 w1 u2 and w1 in L
pub fn replace_re_def(m: &[Vec<bool>], wd: &[u32], t: &[u32]) -> Vec<u32> {
    let n = wd.len();
    for i in 0..=n {
        for j in i..=n {
            if m[i][j] {
                let mut v = wd[..i].to_vec();
                v.extend_from_slice(t);
                v.extend_from_slice(&wd[j..]);
                return v;
            }
        }
    }
    wd.to_vec()
}

/// str.replace_re_all: repeatedly the shortest u1 then shortest NON-EMPTY w1; continue after the match
pub fn replace_re_all_def(m: &[Vec<bool>], wd: &[u32], t: &[u32]) -> Vec<u32> {
    let n = wd.len();
    let mut out = Vec::new();
    let mut pos = 0;
    loop {
        let mut found = None;
        'f: for i in pos..n {
            for j in (i + 1)..=n {
                if m[i][j] {
                    found = Some((i, j));
                    break 'f;
                }
            }
        }
        match found {
            Some((i, j)) => {
                out.extend_from_slice(&wd[pos..i]);
                out.extend_from_slice(t);
                pos = j;
            }
            None => {
                out.extend_from_slice(&wd[pos..]);
                return out;
            }
        }
    }
}

fn all_words(letters: &[u32], maxlen: usize) -> Vec<Vec<u32>> {
    let mut out: Vec<Vec<u32>> = vec![vec![]];
    let mut fr: Vec<Vec<u32>> = vec![vec![]];
    for _ in 0..maxlen {
        let mut nx = Vec::new();
        for x in &fr {
            for &l in letters {
                let mut y = x.clone();
                y.push(l);
                nx.push(y);
            }
        }
        out.extend(nx.iter().cloned());
        fr = nx;
    }
    out
}

/// compare both replace functions on every (word, replacement) with the SMT-LIB definition evaluated on the
/// match table of `r` (`what` says which reading of "the expression" r is: the construction the user wrote,
/// or the term's own AST)
pub fn check_term(ctx: &mut ReCtx, rep: &mut Report, t: RegLan, r: &R, what: &str, words: &[Vec<u32>], repls: &[Vec<u32>], case: &str, seed: u64, rng: &mut Rng) -> bool {
    let dfa = ctx.dfa(r).ok();
    if dfa.is_none() {
        rep.inc("terms_judged_by_dp_only");
    }
    rep.inc("terms_checked");
    if t.nullable {
        rep.inc("nullable_patterns");
    }
    for wd in words {
        let m = match &dfa {
            Some(d) => {
                let tb = table_dfa(d, ctx.atoms(), wd);
                if wd.len() <= 4 && rng.chance(1, 8) {
                    rep.inc("oracle_selfchecks");
                    if tb != table_dp(r, wd) {
                        rep.harness_error(format!("oracle A/B disagree on match table of {} for {}", show_str(wd), r.show()));
                        return true;
                    }
                }
                tb
            }
            None => table_dp(r, wd),
        };
        let sw = SmtString::from(&wd[..]);
        for rp in repls {
            let srp = SmtString::from(&rp[..]);
            rep.inc("replace_calls_compared");
            let want1 = replace_re_def(&m, wd, rp);
            let want2 = replace_re_all_def(&m, wd, rp);
            match guard(|| (w::str_replace_re(&sw, t, &srp), w::str_replace_re_all(&sw, t, &srp))) {
                Ok((g1, g2)) => {
                    let (g1, g2): (Vec<u32>, Vec<u32>) = (g1.iter().copied().collect(), g2.iter().copied().collect());
                    let nl = if t.nullable { "nullable-pattern" } else { "pattern" };
                    if g1 != want1 {
                        rep.violation("replace-re", &format!("replace-re:{}:{}", nl, what), format!("str_replace_re({}, {}, {}) = {} but the leftmost shortest match of the {} {} gives {}", show_str(wd), term_text(t), show_str(rp), show_str(&g1), what, short(&r.show(), 160), show_str(&want1)), KIND_WRAP, case, seed);
                        return false;
                    }
                    if g2 != want2 {
                        rep.violation("replace-re-all", &format!("replace-re-all:{}:{}", nl, what), format!("str_replace_re_all({}, {}, {}) = {} but replacing the leftmost shortest non-empty matches of the {} {} gives {}", show_str(wd), term_text(t), show_str(rp), show_str(&g2), what, short(&r.show(), 160), show_str(&want2)), KIND_WRAP, case, seed);
                        return false;
                    }
                    if g1 != *wd {
                        rep.inc("replace_calls_that_replaced_something");
                        if r.size() <= 14 && rep.xchecks.len() < 60 && rng.chance(1, 200) && crate::oracle::smtlib::cvc5_safe(r) {
                            use crate::oracle::smtlib::{lit, re};
                            rep.xcheck(|| format!("(= (str.replace_re {} {} {}) {})", lit(wd), re(r), lit(rp), lit(&g1)));
                            rep.xcheck(|| format!("(= (str.replace_re_all {} {} {}) {})", lit(wd), re(r), lit(rp), lit(&g2)));
                        }
                    }
                }
                Err(msg) => {
                    rep.violation("replace-panic", "replace-panic", format!("str_replace_re(_all)({}, {}, {}) panicked: {}", show_str(wd), term_text(t), show_str(rp), msg), KIND_WRAP, case, seed);
                    return false;
                }
            }
        }
    }
    true
}

pub fn check_program(prog: &Program, seed: u64, thorough: bool, rep: &mut Report) {
    let c = cfg(thorough);
    let mut rng = Rng::derive(seed, 0xC10, 1);
    let (run, _err) = run_wrap(prog, usize::MAX);
    let mut ctx = ReCtx::new(&prog.all_points(), c.budget);
    // three letters: prefer letters that occur in the program
    let pts = prog.all_points();
    let mut letters: Vec<u32> = Vec::new();
    for _ in 0..20 {
        let l = *rng.pick(&pts);
        if !letters.contains(&l) {
            letters.push(l);
        }
        if letters.len() == 3 {
            break;
        }
    }
    if letters.len() < 3 {
        letters.push(0x7a);
    }
    let words = all_words(&letters, if thorough { 5 } else { 4 });
    for k in 0..run.terms.len() {
        let t = run.terms[k];
        // the matcher takes derivatives along the subject string only: no closure needed
        let nontrivial = run.refs[k].size() >= 3;
        let key = run.refs[k].show();
        rep.eval(if nontrivial { Some(&key) } else { None });
        if !nontrivial && rng.chance(1, 2) {
            continue;
        }
        // replacement texts: empty, one char, a text that itself contains a match when there is one
        let mut repls = vec![vec![], vec![letters[0]]];
        let r = ctx.sref(t);
        if let Ok(d) = ctx.dfa(&r) {
            if let Some(wit) = d.witness_from(d.start) {
                let mut x = ctx.atoms().word(&wit);
                x.truncate(4);
                x.push(letters[1]);
                repls.push(x);
            } else {
                repls.push(vec![letters[1], letters[2]]);
            }
        }
        let case = prog.slice(k).to_text();
        // a sample of the words per term keeps the quick tier short; all words on every 4th term
        let ws: Vec<Vec<u32>> = if k % 4 == 0 { words.clone() } else { words.iter().filter(|_| rng.chance(1, 4)).cloned().collect() };
        // the expression as the caller wrote it (SMT-LIB meaning of the construction) ...
        let built = run.refs[k].clone();
        if !check_term(&mut ctx, rep, t, &built, "construction", &ws, &repls, &case, seed, &mut rng) {
            continue;
        }
        // subjects of 100-300 characters (beyond any small-subject fast path): a background letter with the other
        // letters planted sparsely; judged only when the reference automaton exists (the DP table is cubic)
        if nontrivial && ctx.dfa(&built).is_ok() && (k % 3 == 0 || rng.chance(1, 4)) {
            let mut medium: Vec<Vec<u32>> = Vec::new();
            for _ in 0..2 {
                let n = if rng.chance(1, 2) { *rng.pick(&[99usize, 100, 101, 102, 127, 128, 129, 255, 256, 257]) } else { 6 + rng.usize(295) };
                let bg = *rng.pick(&letters);
                let dens = 2 + rng.below(12);
                let wd: Vec<u32> = (0..n).map(|_| if rng.chance(1, dens) { *rng.pick(&letters) } else { bg }).collect();
                medium.push(wd);
            }
            rep.count("medium_subjects", medium.len() as u64);
            if !check_term(&mut ctx, rep, t, &built, "construction", &medium, &repls[..2.min(repls.len())], &case, seed, &mut rng) {
                continue;
            }
        }
        // ... and the term's own AST (isolates the matcher from constructor rewrites)
        let ws2: Vec<Vec<u32>> = ws.iter().filter(|_| rng.chance(1, 3)).cloned().collect();
        check_term(&mut ctx, rep, t, &r, "term", &ws2, &repls, &case, seed, &mut rng);
    }
}

pub fn run(p: &Params, rep: &mut Report) {
    {
        // subjects of about 2^16 characters (and twice that in the thorough tier): one pattern per shard
        let ns: Vec<usize> = if p.thorough { vec![65_535, 65_536, 65_537, 131_073] } else { vec![65_530 + (p.seed as usize % 5) * 3, 65_536 + (p.shard as usize % 3), [400usize, 1000, 1024, 2048, 4096, 5000, 10_000, 16_384, 30_000, 50_000][(p.shard as usize + p.seed as usize) % 10] + (p.seed as usize % 3)] };
        for n in ns {
            super::ladder::long_subject_replace(rep, p.shard as usize, n, p.seed);
        }
    }
    for_max_loop_programs(p, rep, p.size(20, 200), |prog, seed, rep| check_program(prog, seed, p.thorough, rep));
    for_firstchar_programs(p, rep, p.size(25, 250), |prog, seed, rep| check_program(prog, seed, p.thorough, rep));
    {
        // loops over a word followed by an overlapping word: (ab)*bc and the like, all subjects up to 4 (5) letters
        let mut rng = p.rng(0x4C57);
        for _ in 0..p.size(40, 400) {
            let prog = loopword_program(&mut rng);
            let seed = rng.next();
            rep.inc("loop_over_word_programs");
            if let Err(msg) = guard(|| check_program(&prog, seed, p.thorough, rep)) {
                if panic_in_harness(&msg) {
                    rep.harness_error(format!("monitor panicked: {}", msg));
                } else {
                    rep.violation("panic", "panic-unguarded", format!("crate panicked: {}", msg), KIND_WRAP, &prog.to_text(), seed);
                }
            }
        }
    }
    let n = p.size(300, 3000);
    let w = [(Profile::Boundary, 20), (Profile::Loops, 30), (Profile::Boolean, 25), (Profile::Patterns, 10), (Profile::Mixed, 15)];
    let mut rng = p.rng(10);
    for _ in 0..n {
        let prof = Profile::pick(&mut rng, &w);
        let steps = 12 + rng.usize(25);
        let prog = gen_program(&mut rng, prof, steps);
        let seed = rng.next();
        rep.hist("profiles", prof.name());
        rep.inc("programs");
        rep.sample(|| format!("[{}] {}", prof.name(), prog.to_text().replace('\n', "; ")));
        if let Err(msg) = guard(|| check_program(&prog, seed, p.thorough, rep)) {
            if panic_in_harness(&msg) {
                rep.harness_error(format!("monitor panicked: {}", msg));
            } else {
                rep.violation("panic", "panic-unguarded", format!("crate panicked: {}", msg), KIND_WRAP, &prog.to_text(), seed);
            }
        }
    }
}

pub fn replay(kind: &str, text: &str, seed: u64, rep: &mut Report) -> bool {
    if kind != KIND_WRAP {
        return false;
    }
    replay_program(text, rep, |p, rep| check_program(p, seed, false, rep))
}
