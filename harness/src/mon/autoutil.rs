//! Helpers shared by the automaton monitors (C04, C13, C14).

use crate::gen::autos::*;
use crate::oracle::re::{Atoms, Dfa};
use crate::util::*;
use aws_smt_strings::automata::{Automaton, AutomatonBuilder};
use aws_smt_strings::character_sets::CharSet;
use aws_smt_strings::errors::Error;

/// a state label whose Hash is legal but far from injective: equal labels hash equally, and many different
/// labels share a hash code (the builder must tell them apart with Eq)
#[derive(Clone, Debug, PartialEq, Eq)]
pub struct ClashLabel(pub u32);

impl std::hash::Hash for ClashLabel {
    fn hash<H: std::hash::Hasher>(&self, h: &mut H) {
        (self.0 % 2).hash(h)
    }
}

fn replay_calls<T: Eq + std::hash::Hash + Clone>(spec: &Spec, lab: impl Fn(u32) -> T, twice: bool) -> Result<Automaton, Error> {
    let mut b: AutomatonBuilder<T> = AutomatonBuilder::new(&lab(spec.init));
    for c in &spec.calls {
        match c {
            Call::Trans(s, a, x, t) => {
                b.add_transition(&lab(*s), &CharSet::range(*a, *x), &lab(*t));
            }
            Call::Default(s, t) => {
                b.set_default_successor(&lab(*s), &lab(*t));
            }
            Call::Final(s) => {
                b.mark_final(&lab(*s));
            }
            Call::Build => {
                let _ = b.build();
            }
            Call::BuildUnchecked => {
                let _ = guard(|| b.build_unchecked());
            }
        }
    }
    if twice {
        let _ = b.build();
    }
    b.build()
}

fn one_call(b: &mut AutomatonBuilder<u32>, c: &Call) {
    match c {
        Call::Trans(s, a, x, t) => {
            b.add_transition(s, &CharSet::range(*a, *x), t);
        }
        Call::Default(s, t) => {
            b.set_default_successor(s, t);
        }
        Call::Final(s) => {
            b.mark_final(s);
        }
        Call::Build => {
            let _ = b.build();
        }
        Call::BuildUnchecked => {
            let _ = guard(|| b.build_unchecked());
        }
    }
}

/// two builders alive at the same time: the calls of `a` and `b` alternate, then both are built
pub fn build_two_interleaved(a: &Spec, b: &Spec) -> (Result<Result<Automaton, Error>, String>, Result<Result<Automaton, Error>, String>) {
    let r = guard(|| {
        let mut ba: AutomatonBuilder<u32> = AutomatonBuilder::new(&a.init);
        let mut bb: AutomatonBuilder<u32> = AutomatonBuilder::new(&b.init);
        for k in 0..a.calls.len().max(b.calls.len()) {
            if let Some(c) = a.calls.get(k) {
                one_call(&mut ba, c);
            }
            if let Some(c) = b.calls.get(k) {
                one_call(&mut bb, c);
            }
        }
        let rb = bb.build();
        let ra = ba.build();
        (ra, rb)
    });
    match r {
        Ok((ra, rb)) => (Ok(ra), Ok(rb)),
        Err(m) => (Err(m.clone()), Err(m)),
    }
}

/// replay the builder calls on the real builder
/// like build_spec, but build() is called twice on the same builder; returns the SECOND result
pub fn build_spec_twice(spec: &Spec) -> Result<Result<Automaton, Error>, String> {
    guard(|| replay_calls(spec, |l| l, true))
}

pub fn build_spec(spec: &Spec) -> Result<Result<Automaton, Error>, String> {
    guard(|| replay_calls(spec, |l| l, false))
}

/// the same calls with labels whose hash codes collide
pub fn build_spec_clash(spec: &Spec) -> Result<Result<Automaton, Error>, String> {
    guard(|| replay_calls(spec, ClashLabel, false))
}

/// the specification as a DFA over `atoms` (atoms must contain all spec points); None if some cell is undefined
pub fn spec_dfa(states: &[StateSpec], atoms: &Atoms) -> Option<Dfa> {
    let a = atoms.n();
    let n = states.len();
    let mut t = vec![0u32; n * a];
    for (i, s) in states.iter().enumerate() {
        for k in 0..a {
            t[i * a + k] = s.succ(atoms.lo[k])? as u32;
        }
    }
    Some(Dfa { a, t, f: states.iter().map(|s| s.is_final).collect(), start: 0 })
}

/// find a bijection g: states of `x` -> states of `y` preserving start, finality and every transition.
/// Tries the identity first, then BFS from the start states plus a bounded search for unreachable states.
pub fn isomorphism(x: &Dfa, y: &Dfa) -> Result<Vec<u32>, String> {
    if x.n() != y.n() {
        return Err(format!("{} vs {} states", x.n(), y.n()));
    }
    let n = x.n();
    let check = |g: &[u32]| -> Option<String> {
        if g[x.start as usize] != y.start {
            return Some("initial states do not correspond".into());
        }
        for s in 0..n {
            if x.f[s] != y.f[g[s] as usize] {
                return Some(format!("finality of state {} differs", s));
            }
            for k in 0..x.a {
                if g[x.step(s as u32, k) as usize] != y.step(g[s], k) {
                    return Some(format!("successor of state {} on atom {} differs", s, k));
                }
            }
        }
        None
    };
    let id: Vec<u32> = (0..n as u32).collect();
    let first_err = match check(&id) {
        None => return Ok(id),
        Some(e) => e,
    };
    // BFS matching from the start states
    let mut g = vec![u32::MAX; n];
    let mut used = vec![false; n];
    g[x.start as usize] = y.start;
    used[y.start as usize] = true;
    let mut q = vec![x.start];
    let mut i = 0;
    while i < q.len() {
        let s = q[i];
        i += 1;
        for k in 0..x.a {
            let (sx, sy) = (x.step(s, k), y.step(g[s as usize], k));
            if g[sx as usize] == u32::MAX {
                if used[sy as usize] {
                    return Err(format!("no state bijection (identity fails: {})", first_err));
                }
                g[sx as usize] = sy;
                used[sy as usize] = true;
                q.push(sx);
            } else if g[sx as usize] != sy {
                return Err(format!("no state bijection (identity fails: {})", first_err));
            }
        }
    }
    let free_x: Vec<usize> = (0..n).filter(|&s| g[s] == u32::MAX).collect();
    let free_y: Vec<u32> = (0..n as u32).filter(|&s| !used[s as usize]).collect();
    if free_x.len() > 7 {
        return Err("UNDECIDED: too many unreachable states for the bounded search".into());
    }
    // permutations of the unreachable states
    let mut perm: Vec<usize> = (0..free_x.len()).collect();
    loop {
        let mut gg = g.clone();
        for (i, &sx) in free_x.iter().enumerate() {
            gg[sx] = free_y[perm[i]];
        }
        if check(&gg).is_none() {
            return Ok(gg);
        }
        // next permutation
        let mut i = perm.len();
        loop {
            if i < 2 {
                return Err(format!("no state bijection (identity fails: {})", first_err));
            }
            i -= 1;
            if perm[i - 1] < perm[i] {
                break;
            }
        }
        let mut j = perm.len() - 1;
        while perm[j] <= perm[i - 1] {
            j -= 1;
        }
        perm.swap(i - 1, j);
        perm[i..].reverse();
    }
}
