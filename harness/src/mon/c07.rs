//! C07 — hash-consing: identical constructions give the identical term under any history;
//! complement is an involution without fixed points; the language does not depend on the history.

use super::c01::cfg;
use super::rectx::*;
use crate::gen::reprog::*;
use crate::util::*;
use aws_smt_strings::regular_expressions::{BaseRegLan, ReManager, RegLan, RE};
use aws_smt_strings::smt_regular_expressions as w;
use std::collections::hash_map::DefaultHasher;
use std::collections::HashMap;
use std::hash::{Hash, Hasher};

const MAXC_: u32 = 0x2FFFF;

fn hash_of(t: RegLan) -> u64 {
    let mut h = DefaultHasher::new();
    t.hash(&mut h);
    h.finish()
}

/// structural key of a term: variant + identities of the children
fn skey(t: RegLan) -> String {
    let p = |x: &RegLan| format!("{:p}", *x as *const RE);
    match t.verif_expr() {
        BaseRegLan::Empty => "E".into(),
        BaseRegLan::Epsilon => "e".into(),
        BaseRegLan::Range(cs) => format!("R{:x}-{:x}", cs.pick(), cs.pick() + (cs.size() - 1)),
        BaseRegLan::Concat(a, b) => format!("C{},{}", p(a), p(b)),
        BaseRegLan::Loop(x, r) => format!("L{},{:?}", p(x), r.verif_bounds()),
        BaseRegLan::Complement(x) => format!("N{}", p(x)),
        BaseRegLan::Union(v) => format!("U{}", v.iter().map(p).collect::<Vec<_>>().join(",")),
        BaseRegLan::Inter(v) => format!("I{}", v.iter().map(p).collect::<Vec<_>>().join(",")),
    }
}

/// among the terms a client actually holds (results of API calls): equal iff the same object
fn pool_identity(terms: &[RegLan], rep: &mut Report, kind: &str, case: &str, seed: u64) -> bool {
    for i in 0..terms.len() {
        for j in (i + 1)..terms.len() {
            rep.inc("identity_pairs_checked");
            let (a, b) = (terms[i], terms[j]);
            let same = std::ptr::eq(a, b);
            if (a == b) != same || (same && hash_of(a) != hash_of(b)) {
                rep.violation("identity", "identity:results", format!("results of steps {} and {} compare equal = {} but same object = {} ({} / {})", i, j, a == b, same, term_text(a), term_text(b)), kind, case, seed);
                return false;
            }
        }
    }
    true
}

/// walk every term the manager holds
fn store_walk(m: &mut ReManager, ctx: &mut ReCtx, rep: &mut Report, rng: &mut Rng, kind: &str, case: &str, seed: u64, thorough: bool) -> bool {
    let terms = m.verif_terms();
    let store = m.verif_store_terms();
    rep.count("store_terms_walked", terms.len() as u64);
    rep.hist("id_table_matches_store_size", if terms.len() == store.len() { "yes" } else { "no" });
    // no two distinct pointers with the same structure
    let mut seen: HashMap<String, RegLan> = HashMap::new();
    for &t in terms.iter().chain(store.iter()) {
        let k = skey(t);
        if let Some(&o) = seen.get(&k) {
            if !std::ptr::eq(o, t) {
                rep.violation("duplicate-term", "duplicate-term", format!("the manager holds two distinct objects for the same term {}", term_text(t)), kind, case, seed);
                return false;
            }
        } else {
            seen.insert(k, t);
        }
    }
    // equality, order and hash agree with identity (sampled pairs + all neighbours in id order)
    let n = terms.len();
    let pairs = if thorough { 4000 } else { 1000 };
    for q in 0..pairs.min(n * n) {
        let (i, j) = if q < n.saturating_sub(1) { (q, q + 1) } else { (rng.usize(n), rng.usize(n)) };
        let (a, b) = (terms[i], terms[j]);
        let same = std::ptr::eq(a, b);
        rep.inc("identity_pairs_checked");
        if (a == b) != same || (a.cmp(b) == std::cmp::Ordering::Equal) != same || (same && hash_of(a) != hash_of(b)) || (a.partial_cmp(b) != Some(a.cmp(b))) || (a.cmp(b) != b.cmp(a).reverse()) {
            rep.violation("identity", "identity:eq-ord-hash", format!("== / cmp / hash disagree with object identity on {} and {} (same object: {})", term_text(a), term_text(b), same), kind, case, seed);
            return false;
        }
    }
    // complement: involution without fixed point, denoting the complement language
    let lang_samples = if thorough { 60 } else { 20 };
    for (i, &t) in terms.iter().enumerate() {
        rep.inc("complement_probes");
        let c = match guard(|| m.complement(t)) {
            Ok(c) => c,
            Err(msg) => {
                rep.violation("complement", "complement:panic", format!("complement({}) panicked: {}", term_text(t), msg), kind, case, seed);
                return false;
            }
        };
        if std::ptr::eq(c, t) || c == t {
            rep.violation("complement", "complement:fixed-point", format!("complement({}) is the term itself", term_text(t)), kind, case, seed);
            return false;
        }
        let cc = m.complement(c);
        if !std::ptr::eq(cc, t) {
            rep.violation("complement", "complement:not-involutive", format!("complement(complement({})) = {}", term_text(t), term_text(cc)), kind, case, seed);
            return false;
        }
        if rng.usize(n) < lang_samples || i < 8 {
            let (rt, rc) = (ctx.sref(t), ctx.sref(c));
            let neg = crate::oracle::re::r_not(rt);
            if let Ok((d1, d2)) = ctx.pair(&neg, &rc) {
                rep.inc("complement_languages_compared");
                if let Some(cex) = d1.diff(&d2) {
                    rep.violation("complement", "complement:language", format!("complement({}) = {} does not denote the complement language (differs on {})", term_text(t), term_text(c), show_str(&ctx.atoms().word(&cex))), kind, case, seed);
                    return false;
                }
            }
        }
    }
    true
}

/// run the program on `m` with `noise_n` unrelated operations interleaved; re-issue every step later;
/// compare every result with the language of the construction
fn run_history(m: &mut ReManager, prog: &Program, noise_n: usize, rng: &mut Rng, rep: &mut Report, seed: u64, thorough: bool, label: &str) -> Option<Vec<RegLan>> {
    let c = cfg(thorough);
    let case = prog.to_text();
    let mut terms: Vec<RegLan> = Vec::new();
    let mut refs = Vec::new();
    let per_step = if prog.ops.is_empty() { 0 } else { noise_n / prog.ops.len() + 1 };
    if noise_n > 0 {
        noise(m, rng, &[], noise_n / 2, 200);
    }
    for (k, op) in prog.ops.iter().enumerate() {
        let r = op.denote(&refs);
        match guard(|| op.apply_mgr(m, &terms)) {
            Ok(t) => {
                terms.push(t);
                refs.push(r);
            }
            Err(msg) => {
                if !is_overflow_panic(&msg) {
                    rep.inc("programs_cut_by_constructor_panic");
                }
                let _ = k;
                break;
            }
        }
        if noise_n > 0 && rng.chance(1, 2) {
            let pool = terms.clone();
            noise(m, rng, &pool, per_step, 200);
        }
    }
    // re-issue every step after the whole history: same arguments must give the very same term
    if noise_n > 0 {
        let pool = terms.clone();
        noise(m, rng, &pool, noise_n / 4, 200);
    }
    // a query storm on every result before re-issuing: emptiness, witness, start_char, derivatives, compile
    // (queries may fill interior memo tables; constructions afterwards must still return the same objects)
    for (k, &t) in terms.iter().enumerate() {
        if closure_size(m, t, 150).is_none() {
            continue;
        }
        rep.inc("results_queried_before_reissue");
        let _ = guard(|| {
            let _ = m.is_empty_re(t);
            let _ = m.get_string(t);
            let _ = m.start_char(t, 0x61);
            let _ = m.char_derivative(t, 0x62);
            if k % 3 == 0 {
                let _ = m.compile(t);
            }
            let _ = m.iter_derivatives(t).take(2).count();
        });
    }
    // calls that are documented to panic or to return an error, made on this manager and survived by the caller
    // (catch_unwind / ignored Err): the manager must be none the worse for it when the steps are re-issued below
    {
        use aws_smt_strings::character_sets::{CharSet, ClassId};
        for (k, &t) in terms.iter().enumerate().filter(|(k, _)| k % 3 == 1).take(6) {
            let _ = k;
            rep.count("failing_calls_survived_before_reissue", 7);
            let _ = guard(|| m.range(5, 3));
            let _ = guard(|| m.char(0x30000));
            let _ = guard(|| m.class_derivative(t, ClassId::Interval(usize::MAX)));
            let _ = guard(|| m.class_derivative_unchecked(t, ClassId::Interval(9999)));
            let _ = guard(|| m.set_derivative(t, &CharSet::range(0, MAXC_)));
            let _ = guard(|| m.set_derivative_unchecked(t, &CharSet::range(0, MAXC_)));
            let _ = guard(|| m.start_class(t, ClassId::Interval(9999)));
        }
        // list constructors whose operand iterator fails after one or two items, and one-element lists
        if let Some(&t0) = terms.first() {
            rep.count("failing_calls_survived_before_reissue", 3);
            let failing = |n: usize| terms.iter().copied().take(n).chain(std::iter::once_with(|| -> RegLan { panic!("the caller's iterator fails") }));
            let _ = guard(|| m.union_list(failing(1)));
            let _ = guard(|| m.inter_list(failing(2)));
            let _ = guard(|| m.concat_list(failing(2)));
            let one = (m.union_list([t0].into_iter()), m.inter_list([t0].into_iter()), m.concat_list([t0].into_iter()));
            if !std::ptr::eq(one.0, t0) || !std::ptr::eq(one.1, t0) || !std::ptr::eq(one.2, t0) {
                rep.violation("reissue", "reissue:one-element-list", format!("[{}] union_list / inter_list / concat_list of the one-element list [{}] is not that element", label, term_text(t0)), KIND_MGR, &case, seed);
                return None;
            }
        }
    }
    for k in 0..terms.len() {
        rep.inc("constructor_calls_reissued");
        match guard(|| prog.ops[k].apply_mgr(m, &terms)) {
            Ok(t2) => {
                if !std::ptr::eq(t2, terms[k]) || t2 != terms[k] {
                    rep.violation(
                        "reissue",
                        &format!("reissue:{}", prog.ops[k].name()),
                        format!("[{}] step {} {} re-issued after {} unrelated operations returns {} instead of the original {}", label, k, prog.ops[k].to_text(), noise_n, term_text(t2), term_text(terms[k])),
                        KIND_MGR,
                        &case,
                        seed,
                    );
                    return None;
                }
            }
            Err(msg) => {
                rep.violation("reissue", "reissue:panic", format!("re-issued step {} panicked: {}", k, msg), KIND_MGR, &case, seed);
                return None;
            }
        }
    }
    if !pool_identity(&terms, rep, KIND_MGR, &case, seed) {
        return None;
    }
    // language under this history == language of the construction
    let mut ctx = ReCtx::new(&prog.all_points(), c.budget);
    for k in 0..terms.len() {
        let rs = ctx.sref(terms[k]);
        match ctx.pair(&refs[k], &rs) {
            Ok((da, ds)) => {
                rep.inc("history_languages_compared");
                if let Some(cex) = da.diff(&ds) {
                    rep.violation(
                        "history-language",
                        &format!("history-language:{}", prog.ops[k].name()),
                        format!("[{}] after a history of {} unrelated operations, step {} {} yields {} whose language differs from the construction on {}", label, noise_n, k, prog.ops[k].to_text(), term_text(terms[k]), show_str(&ctx.atoms().word(&cex))),
                        KIND_MGR,
                        &case,
                        seed,
                    );
                    return None;
                }
            }
            Err(_) => {
                rep.inc("skipped_refdfa_budget");
                if let Some(why) = crate::oracle::re::provably_different(&refs[k], &rs) {
                    rep.violation("history-language", &format!("history-language:{}", prog.ops[k].name()), format!("[{}] after a history of {} unrelated operations, step {} {} yields {} whose language differs from the construction ({})", label, noise_n, k, prog.ops[k].to_text(), term_text(terms[k]), why), KIND_MGR, &case, seed);
                    return None;
                }
            }
        }
    }
    // answers, not only terms: membership of fixed probe words in every result and its complement, asked in a
    // history-dependent order (the derivative cache then holds different entries in different histories)
    {
        let atoms = ctx.atoms().clone();
        let mid = atoms.lo[atoms.n() / 2];
        let probes: Vec<Vec<u32>> = vec![vec![], vec![0], vec![MAXC_], vec![0, MAXC_], vec![MAXC_, 0], vec![mid], vec![mid, 0], vec![MAXC_, mid, MAXC_]];
        let mut order: Vec<(usize, bool, usize)> = Vec::new();
        for k in 0..terms.len() {
            for neg in [false, true] {
                for w in 0..probes.len() {
                    order.push((k, neg, w));
                }
            }
        }
        rng.shuffle(&mut order);
        order.truncate(if thorough { 1500 } else { 500 });
        for (k, neg, w) in order {
            let d = match ctx.dfa(&refs[k]) {
                Ok(d) => d,
                Err(_) => continue,
            };
            let wd = &probes[w];
            let want = d.accepts(&ctx.atoms().word_of(wd)) != neg;
            let t = if neg { m.complement(terms[k]) } else { terms[k] };
            rep.inc("history_membership_answers_compared");
            match guard(|| m.str_in_re(&aws_smt_strings::smt_strings::SmtString::from(&wd[..]), t)) {
                Ok(got) => {
                    if got != want {
                        rep.violation(
                            "history-answer",
                            "history-answer:str_in_re",
                            format!("[{}] after {} unrelated operations and other membership queries: str_in_re({}, {}{}) = {} but the construction says {}", label, noise_n, show_str(wd), if neg { "complement of " } else { "" }, term_text(terms[k]), got, want),
                            KIND_MGR,
                            &case,
                            seed,
                        );
                        return None;
                    }
                }
                Err(msg) => {
                    rep.violation("history-answer", "history-answer:panic", format!("str_in_re panicked: {}", msg), KIND_MGR, &case, seed);
                    return None;
                }
            }
        }
    }
    if !store_walk(m, &mut ctx, rep, rng, KIND_MGR, &case, seed, thorough) {
        return None;
    }
    Some(terms)
}

/// the same program through the wrappers on the thread-local manager of a fresh thread, with its own history
fn run_wrapped_thread(prog: &Program, noise_n: usize, seed: u64, thorough: bool) -> Report {
    let prog = prog.clone();
    let h = std::thread::Builder::new()
        .stack_size(256 << 20)
        .spawn(move || {
            let mut rep = Report::new("C07", "");
            rep.max_samples = 0;
            let c = cfg(thorough);
            let mut rng = Rng::derive(seed, 0x7EAD, noise_n as u64);
            let case = prog.to_text();
            w::verif_with_manager(|m| noise(m, &mut rng, &[], noise_n, 200));
            let (run, _) = run_wrap(&prog, usize::MAX);
            w::verif_with_manager(|m| noise(m, &mut rng, &run.terms, noise_n / 2, 200));
            // a list wrapper whose operand iterator fails half-way, survived by the caller: the terms handed out
            // before must remain the terms of this thread's manager
            if let Some(&first) = run.terms.first() {
                for which in 0..4 {
                    rep.inc("list_wrapper_calls_with_a_failing_iterator_survived");
                    let _ = guard(|| {
                        let it = run.terms.iter().copied().take(2).chain(std::iter::once_with(|| -> RegLan { panic!("the caller's iterator fails") }));
                        match which {
                            0 => w::re_union_list(it),
                            1 => w::re_inter_list(it),
                            2 => w::re_concat_list(it),
                            _ => w::re_diff_list(first, it),
                        }
                    });
                }
            }
            for k in 0..run.terms.len() {
                rep.inc("wrapper_calls_reissued");
                match guard(|| prog.ops[k].apply_wrap(&run.terms)) {
                    Ok(t2) => {
                        if !std::ptr::eq(t2, run.terms[k]) {
                            rep.violation("reissue", &format!("reissue-wrapper:{}", prog.ops[k].name()), format!("wrapper step {} {} re-issued returns a different term", k, prog.ops[k].to_text()), "reprog-wrap", &case, seed);
                            return rep;
                        }
                    }
                    Err(_) => break,
                }
            }
            if !pool_identity(&run.terms, &mut rep, "reprog-wrap", &case, seed) {
                return rep;
            }
            // complement through the wrappers is an involution on the objects handed out
            for (k, &t) in run.terms.iter().enumerate() {
                if let Ok(c) = guard(|| w::re_comp(t)) {
                    let cc = w::re_comp(c);
                    if std::ptr::eq(c, t) || !std::ptr::eq(cc, t) {
                        rep.violation("complement", "complement:wrapper-involution", format!("re_comp(re_comp(x)) is not x (or re_comp(x) is x) for the result of step {}: {}", k, term_text(t)), "reprog-wrap", &case, seed);
                        return rep;
                    }
                }
            }
            let mut ctx = ReCtx::new(&prog.all_points(), c.budget);
            for k in 0..run.terms.len() {
                let rs = ctx.sref(run.terms[k]);
                if let Ok((da, ds)) = ctx.pair(&run.refs[k], &rs) {
                    rep.inc("history_languages_compared");
                    if let Some(cex) = da.diff(&ds) {
                        rep.violation("history-language", &format!("history-language-wrapper:{}", prog.ops[k].name()), format!("thread-local manager with {} prior operations: step {} {} yields {} whose language differs from the construction on {}", noise_n, k, prog.ops[k].to_text(), term_text(run.terms[k]), show_str(&ctx.atoms().word(&cex))), "reprog-wrap", &case, seed);
                        return rep;
                    }
                }
            }
            w::verif_with_manager(|m| store_walk(m, &mut ctx, &mut rep, &mut rng, "reprog-wrap", &case, seed, false));
            rep
        })
        .expect("spawn");
    match h.join() {
        Ok(r) => r,
        Err(_) => {
            let mut r = Report::new("C07", "");
            r.harness_error("wrapper thread died".into());
            r
        }
    }
}

/// two managers alive at the same time, fed alternately: the program on one, its twin over a shifted alphabet on
/// the other (same shapes, same ids, different languages). Nothing may leak from one to the other.
fn run_interleaved(prog: &Program, rep: &mut Report, seed: u64, thorough: bool) -> bool {
    let c = cfg(thorough);
    let twin = prog.twin();
    let case = prog.to_text();
    let (mut m1, mut m2) = (ReManager::new(), ReManager::new());
    let (mut t1, mut t2): (Vec<RegLan>, Vec<RegLan>) = (Vec::new(), Vec::new());
    let (mut r1, mut r2) = (Vec::new(), Vec::new());
    for k in 0..prog.ops.len() {
        let (d1, d2) = (prog.ops[k].denote(&r1), twin.ops[k].denote(&r2));
        let a = guard(|| prog.ops[k].apply_mgr(&mut m1, &t1));
        let b = guard(|| twin.ops[k].apply_mgr(&mut m2, &t2));
        match (a, b) {
            (Ok(x), Ok(y)) => {
                t1.push(x);
                t2.push(y);
                r1.push(d1);
                r2.push(d2);
                // queries on one manager between two constructions on the other
                if k % 3 == 0 {
                    let _ = guard(|| (x.included_in(t1[k / 2]), y.included_in(t2[k / 2])));
                    // (emptiness only where the derivative closure is small: the call itself cannot be interrupted)
                    if closure_size(&mut m1, x, 150).is_some() {
                        let _ = guard(|| m1.is_empty_re(x));
                    }
                }
            }
            _ => break,
        }
    }
    rep.inc("interleaved_manager_pairs");
    let mut pts = prog.all_points();
    pts.extend(twin.all_points());
    let mut ctx = ReCtx::new(&pts, c.budget);
    for (which, terms, refs, m) in [("first", &t1, &r1, &mut m1), ("second (twin alphabet)", &t2, &r2, &mut m2)] {
        for k in 0..terms.len() {
            let rs = ctx.sref(terms[k]);
            if let Ok((da, ds)) = ctx.pair(&refs[k], &rs) {
                rep.inc("interleaved_languages_compared");
                if let Some(cex) = da.diff(&ds) {
                    rep.violation("history-language", "history-language:interleaved-managers", format!("two managers fed alternately: step {} on the {} manager yields {} whose language differs from the construction on {}", k, which, term_text(terms[k]), show_str(&ctx.atoms().word(&cex))), KIND_MGR, &case, seed);
                    return false;
                }
            }
            // a positive inclusion answer between two results of this manager must hold
            let j = (k * 7 + 3) % terms.len();
            if terms[k].included_in(terms[j]) {
                if let Ok((dk, dj)) = ctx.pair(&refs[k], &refs[j]) {
                    if let Some(cex) = dk.not_included_from(dk.start, &dj, dj.start) {
                        rep.violation("history-answer", "history-answer:interleaved-included_in", format!("two managers fed alternately: on the {} manager ({}).included_in({}) = true but {} is only in the first", which, term_text(terms[k]), term_text(terms[j]), show_str(&ctx.atoms().word(&cex))), KIND_MGR, &case, seed);
                        return false;
                    }
                }
            }
            let _ = &m;
        }
    }
    true
}

pub fn check_program(prog: &Program, seed: u64, thorough: bool, rep: &mut Report) {
    if !run_interleaved(prog, rep, seed, thorough) {
        return;
    }
    let mut rng = Rng::derive(seed, 0xC07, 1);
    // (a) fresh manager, (b) histories with increasing noise
    let noises: Vec<usize> = if thorough { vec![0, 5, 40, 150, 400, 400] } else { vec![0, 10, 120, 400] };
    let mut shapes: Vec<Vec<String>> = Vec::new();
    for (h, &nz) in noises.iter().enumerate() {
        let mut m = ReManager::new();
        rep.inc("histories_run");
        match run_history(&mut m, prog, nz, &mut rng, rep, seed, thorough, &format!("history {}", h)) {
            Some(terms) => shapes.push(terms.iter().map(|t| format!("{}", t)).collect()),
            None => return,
        }
    }
    // one history with a very large store (ids beyond 2^16 / 2^17): sampled, it costs ~50 ms
    static FIRST: std::sync::atomic::AtomicBool = std::sync::atomic::AtomicBool::new(true);
    let first = FIRST.swap(false, std::sync::atomic::Ordering::Relaxed);
    if first || rng.chance(1, if thorough { 4 } else { 12 }) {
        let mut m = ReManager::new();
        bulk_preload(&mut m, 70_000);
        rep.inc("histories_run");
        rep.inc("large_store_histories");
        match run_history(&mut m, prog, 20, &mut rng, rep, seed, thorough, "large store (70 000 unrelated terms first)") {
            Some(terms) => shapes.push(terms.iter().map(|t| format!("{}", t)).collect()),
            None => return,
        }
    }
    // representation detail, recorded only: do different histories print the same term?
    if shapes.len() >= 2 {
        let same = shapes.iter().all(|s| s == &shapes[0]);
        rep.hist("printed_terms_identical_across_histories", if same { "yes" } else { "no" });
    }
    // (c) wrappers on thread-local managers of fresh threads
    let wn = if thorough { 3 } else { 1 };
    for i in 0..wn {
        let nz = [0usize, 60, 300][i % 3 + (if thorough { 0 } else { 1 }).min(2 - i % 3)];
        let r = run_wrapped_thread(prog, nz, seed ^ (i as u64 + 1), thorough);
        rep.inc("wrapper_threads_run");
        rep.absorb(r);
    }
    rep.eval(Some(&prog.to_text()));
}

/// tiny programs: each on a fresh manager (so that every constructor is also seen as the FIRST call of a
/// manager's life) and, for one in eight, through the wrappers of a fresh thread
fn check_tiny(prog: &Program, seed: u64, thorough: bool, rep: &mut Report) {
    let mut rng = Rng::derive(seed, 0xC07, 2);
    let mut m = ReManager::new();
    rep.inc("histories_run");
    if run_history(&mut m, prog, 0, &mut rng, rep, seed, thorough, "fresh manager").is_none() {
        return;
    }
    if rng.chance(1, 8) {
        let r = run_wrapped_thread(prog, 0, seed, thorough);
        rep.inc("wrapper_threads_run");
        rep.absorb(r);
    }
    if rng.chance(1, 6) {
        let mut m2 = ReManager::new();
        rep.inc("histories_run");
        run_history(&mut m2, prog, 25, &mut rng, rep, seed, thorough, "noisy manager");
    }
    rep.eval(Some(&prog.to_text()));
}

pub fn run(p: &Params, rep: &mut Report) {
    if p.shard == 7 {
        // one wrapper query that creates more than 2^20 (2^21) terms on the thread-local manager
        super::ladder::big_wrapper_query(rep, if p.thorough { 1_150_000 } else { 600_000 }, p.seed);
        // operand and class counts beyond 2^10 (and, for one term, beyond 2^16)
        for n in if p.thorough { vec![1100u32, 2100, 4200, 1300 + (p.seed as u32 * 37) % 1700] } else { vec![1100u32, 301 + (p.seed as u32 * 397) % 1700] } {
            super::ladder::wide_union(rep, "C07", n, p.seed);
        }
    }
    let stride = 1;
    for_tiny_programs(p, rep, stride, p.size(200, 4000), |prog, seed, rep| check_tiny(prog, seed, p.thorough, rep));
    let n = p.size(40, 400);
    for_programs(p, rep, 7, n, &STD_WEIGHTS, (20, 45), |prog, seed, rep| check_program(prog, seed, p.thorough, rep));
}

pub fn replay(kind: &str, text: &str, seed: u64, rep: &mut Report) -> bool {
    if kind != KIND_MGR && kind != "reprog-wrap" {
        return false;
    }
    replay_program(text, rep, |p, rep| check_program(p, seed, false, rep))
}
