//! C04 — minimize preserves the language and leaves no two equivalent states.
//! Translation validation of every minimisation against snapshots taken through the public API.

use super::autoutil::*;
use super::rectx::*;
use crate::gen::autos::*;
use crate::gen::reprog::*;
use crate::oracle::re::{Atoms, Dfa};
use crate::oracle::snap::*;
use crate::util::*;
use aws_smt_strings::automata::Automaton;

/// minimise `auto` and validate; `nerode` = Myhill-Nerode index when known from an independent source
pub fn check_minimize(rep: &mut Report, auto: &mut Automaton, origin: &str, kind: &str, case: &str, seed: u64, nerode: Option<usize>) -> bool {
    macro_rules! bad {
        ($rule:expr, $($arg:tt)*) => {{
            rep.violation($rule, &format!("{}:{}", $rule, origin), format!($($arg)*), kind, case, seed);
            return false;
        }};
    }
    let atoms = Atoms::from_points(&automaton_points(auto));
    let before = match observe(auto, &atoms) {
        Ok(d) => d,
        Err(_) => {
            rep.inc("skipped_unobservable_input"); // belongs to C02/C13
            return true;
        }
    };
    rep.hist("states_before", &bucket(before.n()));
    rep.hist("alphabet_classes", &bucket(atoms.n()));
    rep.hist("moore_depth", &format!("{}", before.moore_depth().min(12)));
    let all_reachable = before.reachable().iter().all(|&b| b);
    if let Err(msg) = guard(|| auto.minimize()) {
        bad!("minimize-panic", "minimize() panicked on a {} automaton with {} states ({}reachable): {}", origin, before.n(), if all_reachable { "all " } else { "not all " }, msg);
    }
    rep.inc("minimizations_validated");
    // same probes; the result may only expose a subset of the old break points
    let pts_after = automaton_points(auto);
    let atoms2 = {
        let mut p = automaton_points_from(&atoms);
        p.extend(pts_after);
        Atoms::from_points(&p)
    };
    let before2 = if atoms2 == atoms { before.clone() } else { before.refine_atoms(&atoms, &atoms2) };
    let after = match observe(auto, &atoms2) {
        Ok(d) => d,
        Err(ObsError::Broken(m)) | Err(ObsError::NonUniform(m)) => bad!("minimize-broken", "minimized {} automaton cannot be observed: {}", origin, m),
    };
    rep.count("cells_probed", ((before2.n() + after.n()) * after.a * 3) as u64);
    // language preserved
    if let Some(cex) = before2.diff(&after) {
        bad!("language", "minimize() changed the language of a {} automaton ({} -> {} states): word {} is {} before and {} after", origin, before2.n(), after.n(), show_str(&atoms2.word(&cex)), before2.accepts(&cex), after.accepts(&cex));
    }
    // no two equivalent states in the result
    let (cls_after, k_after) = after.moore_classes();
    if k_after != after.n() {
        let mut pair = (0, 0);
        'o: for i in 0..after.n() {
            for j in (i + 1)..after.n() {
                if cls_after[i] == cls_after[j] {
                    pair = (i, j);
                    break 'o;
                }
            }
        }
        bad!("not-minimal", "minimize() of a {} automaton left equivalent states {} and {} ({} states, {} residual languages)", origin, pair.0, pair.1, after.n(), k_after);
    }
    // state count
    let (_, k_all) = before2.moore_classes();
    let reach = before2.reachable();
    let k_reach = {
        let (cls, _) = before2.moore_classes();
        let mut s: Vec<u32> = (0..before2.n()).filter(|&i| reach[i]).map(|i| cls[i]).collect();
        s.sort_unstable();
        s.dedup();
        s.len()
    };
    if after.n() < k_reach || after.n() > k_all {
        bad!("state-count", "minimize() of a {} automaton returned {} states; the original has {} residual languages ({} among reachable states)", origin, after.n(), k_all, k_reach);
    }
    if all_reachable && after.n() != k_all {
        bad!("state-count", "all states reachable: minimize() returned {} states, the minimal complete DFA has {}", after.n(), k_all);
    }
    if let Some(nn) = nerode {
        if all_reachable && after.n() != nn {
            bad!("state-count", "minimize() returned {} states but the Myhill-Nerode index of the language is {}", after.n(), nn);
        }
        rep.inc("nerode_index_compared");
    }
    // every state of the result carries the residual language of some original state
    {
        // residual-language classes of the disjoint union of both automata (one partition refinement)
        let (nb, na) = (before2.n(), after.n());
        let a = after.a;
        let mut t = Vec::with_capacity((nb + na) * a);
        t.extend_from_slice(&before2.t);
        t.extend(after.t.iter().map(|&x| x + nb as u32));
        let mut f = before2.f.clone();
        f.extend_from_slice(&after.f);
        let both = Dfa { a, t, f, start: 0 };
        let (cls, ncls) = both.hopcroft_classes();
        let mut has_original = vec![false; ncls];
        for s1 in 0..nb {
            has_original[cls[s1] as usize] = true;
        }
        for s2 in 0..na {
            if !has_original[cls[nb + s2] as usize] {
                bad!("invented-state", "state {} of the minimized automaton has a residual language that no original state had", s2);
            }
        }
    }
    // bookkeeping
    let nf = after.f.iter().filter(|&&b| b).count();
    if auto.num_states() != after.n() || auto.num_final_states() != nf || auto.final_states().count() != nf || !auto.final_states().all(|s| s.is_final()) {
        bad!("bookkeeping", "after minimize(): num_states {} / observed {}, num_final_states {} / final_states() {} / observed {}", auto.num_states(), after.n(), auto.num_final_states(), auto.final_states().count(), nf);
    }
    if before2.f[before2.start as usize] != after.f[after.start as usize] {
        bad!("bookkeeping", "finality of the initial state changed");
    }
    // idempotence: minimizing again changes nothing observable
    if guard(|| auto.minimize()).is_err() {
        bad!("minimize-panic", "second minimize() panicked");
    }
    if auto.num_states() != after.n() {
        bad!("not-minimal", "a second minimize() shrank the automaton from {} to {} states", after.n(), auto.num_states());
    }
    true
}

fn automaton_points_from(a: &Atoms) -> Vec<u32> {
    // cut points of an atom set as "points": every lo is a start; lo-1 an end
    let mut v = Vec::new();
    for &l in &a.lo {
        v.push(l);
        if l > 0 {
            v.push(l - 1);
        }
    }
    v
}

fn bucket(n: usize) -> String {
    match n {
        0..=2 => format!("{}", n),
        3..=4 => "3-4".into(),
        5..=8 => "5-8".into(),
        9..=16 => "9-16".into(),
        17..=32 => "17-32".into(),
        _ => "33+".into(),
    }
}

pub fn check_spec(rep: &mut Report, spec: &Spec, seed: u64) {
    let case = spec.to_text();
    let mut auto = match build_spec(spec) {
        Ok(Ok(a)) => a,
        _ => {
            rep.inc("spec_not_built"); // C13's business
            return;
        }
    };
    if !check_minimize(rep, &mut auto, "builder", "autospec", &case, seed, None) {
        return;
    }
    // the successor table requested first, then prune, then minimize — all on one object
    if let Ok(Ok(mut a3)) = build_spec(spec) {
        let _ = guard(|| a3.compile_successors());
        if guard(|| a3.remove_unreachable_states()).is_ok() {
            let _ = guard(|| a3.compile_successors());
            rep.inc("table_prune_minimize_sequences");
            if !check_minimize(rep, &mut a3, "builder: table, prune, minimize", "autospec", &case, seed, None) {
                return;
            }
        }
    }
    // and in the other order: prune first, then minimize (all states reachable: exact state count applies)
    if let Ok(Ok(mut a2)) = build_spec(spec) {
        if guard(|| a2.remove_unreachable_states()).is_ok() {
            rep.inc("pruned_builder_automata");
            check_minimize(rep, &mut a2, "builder+pruned", "autospec", &case, seed, None);
        }
    }
}

pub fn check_program(prog: &Program, seed: u64, thorough: bool, rep: &mut Report) {
    let c = super::c01::cfg(thorough);
    let mut s = Sess::start(prog, seed, thorough, c.budget, 0, rep);
    for k in 0..s.run.terms.len() {
        let t = s.run.terms[k];
        if closure_size(&mut s.m, t, 400).is_none() {
            rep.inc("skipped_derivative_budget");
            continue;
        }
        let mut auto = match guard(|| s.m.compile(t)) {
            Ok(a) => a,
            Err(_) => continue,
        };
        let nerode = s.ctx.term_dfa(t).ok().map(|d| d.n());
        let case = s.case(k);
        rep.eval(Some(&format!("re:{}", s.run.refs[k].show())));
        check_minimize(rep, &mut auto, "compiled", KIND_MGR, &case, seed, nerode);
    }
}

pub fn run(p: &Params, rep: &mut Report) {
    if p.shard == 1 {
        let n = if p.thorough { 40_000 } else { 15_000 };
        super::deep::probe(rep, "auto-chain", n, &super::deep::expect_auto_chain(n), "minimize", p.seed);
    }
    if p.shard % 4 == 2 {
        // alphabets of more than 2^10 (2^12 in the thorough tier) classes where only a word that mixes letters
        // from far-apart parts of the alphabet separates two states
        let fillers = if p.thorough { 4200 } else { 1100 + 100 * (p.seed as u32 % 5) };
        let spec = far_letters_spec(2 + (p.shard as u32 / 4), fillers);
        rep.inc("far_letter_automata");
        check_spec(rep, &spec, p.seed);
    }
    let mut rng = p.rng(4);
    let n = p.size(8000, 80_000);
    for it in 0..n {
        let spec = if it % 40 == 39 { gen_superfluous_default(&mut rng) } else { gen_wellformed(&mut rng, p.thorough) };
        let seed = rng.next();
        let text = spec.to_text();
        rep.eval(Some(&text));
        rep.sample(|| text.replace('\n', "; "));
        rep.inc("builder_automata");
        if let Err(m) = guard(|| check_spec(rep, &spec, seed)) {
            if panic_in_harness(&m) {
                rep.harness_error(m);
            } else {
                rep.violation("panic", "panic-unguarded", format!("crate panicked: {}", m), "autospec", &text, seed);
            }
        }
    }
    let np = p.size(40, 400);
    for_programs(p, rep, 40, np, &STD_WEIGHTS, (15, 40), |prog, seed, rep| check_program(prog, seed, p.thorough, rep));
}

pub fn replay(kind: &str, text: &str, seed: u64, rep: &mut Report) -> bool {
    match kind {
        "autospec" => {
            match Spec::from_text(text) {
                Ok(s) => check_spec(rep, &s, seed),
                Err(e) => rep.harness_error(e),
            }
            true
        }
        KIND_MGR => replay_program(text, rep, |p, rep| check_program(p, seed, false, rep)),
        _ => false,
    }
}
