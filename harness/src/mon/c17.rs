//! C17 — every SmtString the API hands out contains only SMT-LIB characters.

use crate::gen::reprog::*;
use crate::util::*;
use aws_smt_strings::regular_expressions::ReManager;
use aws_smt_strings::smt_regular_expressions as w;
use aws_smt_strings::smt_strings::*;

const MAXC: u32 = 0x2FFFF;

fn v(x: &SmtString) -> Vec<u32> {
    x.iter().copied().collect()
}

/// the produced string must be good and usable by the rest of the crate
fn check_good(rep: &mut Report, m: &mut ReManager, x: &SmtString, how: &str, case: &str, kind: &str, seed: u64) -> bool {
    rep.inc("strings_checked");
    let bad = x.iter().any(|&c| c > MAXC);
    if bad || !x.is_good() {
        rep.violation("not-good", &format!("not-good:{}", how), format!("{} produced {} which contains a code point above 0x2FFFF (is_good = {})", how, show_str(&v(x)), x.is_good()), kind, case, seed);
        return false;
    }
    if x.len() <= 64 {
        match guard(|| {
            let r = m.str(x);
            m.str_in_re(x, r)
        }) {
            Ok(true) => {}
            Ok(false) => {
                rep.violation("unusable", &format!("unusable:{}", how), format!("{} produced {} which is not a member of ReManager::str of itself", how, show_str(&v(x))), kind, case, seed);
                return false;
            }
            Err(msg) => {
                rep.violation("unusable", &format!("unusable:{}", how), format!("{} produced {}; ReManager::str panicked on it: {}", how, show_str(&v(x)), msg), kind, case, seed);
                return false;
            }
        }
    }
    true
}

fn fix(c: u32) -> u32 {
    if c <= MAXC {
        c
    } else {
        0xFFFD
    }
}

fn hash_of<T: std::hash::Hash>(x: &T) -> u64 {
    use std::hash::Hasher;
    let mut h = std::collections::hash_map::DefaultHasher::new();
    x.hash(&mut h);
    h.finish()
}

/// two strings built from the same / different code points must behave as values
fn check_value_semantics(rep: &mut Report, a: &[u32], b: &[u32], seed: u64) {
    let (fa, fb) = (a.iter().map(|&c| fix(c)).collect::<Vec<u32>>(), b.iter().map(|&c| fix(c)).collect::<Vec<u32>>());
    let (sa, sa2, sb) = (SmtString::from(a), SmtString::from(a.to_vec()), SmtString::from(b));
    let case = a.iter().map(|c| format!("{:x}", c)).collect::<Vec<_>>().join(" ");
    rep.inc("value_semantics_probes");
    // read-only observers on one of the two equal strings first: they must not change ==, hash or clone
    let _ = (sa.is_unicode(), sa.is_good(), sa.len(), sa.is_empty(), sa.iter().count());
    if sa.len() <= 64 {
        let _ = sa.to_string();
    }
    if sa.is_unicode() && sa.len() <= 64 {
        let _ = sa.to_unicode_string();
    }
    let cl = sa.clone();
    let bad = sa != sa2
        || hash_of(&sa) != hash_of(&sa2)
        || cl != sa
        || hash_of(&cl) != hash_of(&sa)
        || (sa == sb) != (fa == fb)
        || sa.as_ref() != &fa[..]
        || sa.len() != fa.len()
        || sa.is_empty() != fa.is_empty()
        || sa.iter().copied().collect::<Vec<u32>>() != fa
        || (0..fa.len()).any(|i| sa.char(i) != fa[i])
        || str_len(&sa) as usize != fa.len()
        || (fa.is_empty() && sa != EMPTY);
    if bad {
        rep.violation("value-semantics", "value-semantics:SmtString", format!("SmtString built from {} does not behave as a value (==, hash, clone, as_ref, len, char, iter) against {}", show_str(a), show_str(b)), "u32s", &case, seed);
    }
}

pub fn check_ints(rep: &mut Report, m: &mut ReManager, a: &[u32], seed: u64) {
    let case = a.iter().map(|c| format!("{:x}", c)).collect::<Vec<_>>().join(" ");
    let want: Vec<u32> = a.iter().map(|&c| fix(c)).collect();
    let from_slice = guard(|| SmtString::from(a));
    let from_vec = guard(|| SmtString::from(a.to_vec()));
    for (how, r) in [("From<&[u32]>", from_slice), ("From<Vec<u32>>", from_vec)] {
        rep.inc("integer_constructor_probes");
        match r {
            Ok(x) => {
                if v(&x) != want {
                    rep.violation("int-constructor", &format!("int-constructor:{}", how), format!("{}({}) = {}, expected {}", how, show_str(a), show_str(&v(&x)), show_str(&want)), "u32s", &case, seed);
                } else {
                    check_good(rep, m, &x, how, &case, "u32s", seed);
                }
            }
            Err(msg) => rep.violation("int-constructor", &format!("int-constructor:{}", how), format!("{}({}) panicked: {}", how, show_str(a), msg), "u32s", &case, seed),
        }
    }
    // fixed-size array references
    let arrs: Vec<(&str, Option<SmtString>)> = vec![
        ("From<&[u32; 1]>", if a.len() == 1 { Some(SmtString::from(&[a[0]])) } else { None }),
        ("From<&[u32; 2]>", if a.len() == 2 { Some(SmtString::from(&[a[0], a[1]])) } else { None }),
        ("From<&[u32; 3]>", if a.len() == 3 { Some(SmtString::from(&[a[0], a[1], a[2]])) } else { None }),
        ("From<&[u32; 4]>", if a.len() == 4 { Some(SmtString::from(&[a[0], a[1], a[2], a[3]])) } else { None }),
    ];
    for (how, r) in arrs {
        if let Some(x) = r {
            rep.inc("integer_constructor_probes");
            if v(&x) != want {
                rep.violation("int-constructor", &format!("int-constructor:{}", how), format!("{}({}) = {}, expected {}", how, show_str(a), show_str(&v(&x)), show_str(&want)), "u32s", &case, seed);
            }
        }
    }
    for &c in a {
        if good_char(c) != (c <= MAXC) || good_string(&[c]) != (c <= MAXC) {
            rep.violation("int-constructor", "int-constructor:good_char", format!("good_char/good_string({:x}) wrong", c), "u32s", &case, seed);
        }
    }
    if a.len() == 1 {
        rep.inc("integer_constructor_probes");
        let x = SmtString::from(a[0]);
        if v(&x) != want {
            rep.violation("int-constructor", "int-constructor:From<u32>", format!("From<u32>({:x}) = {}", a[0], show_str(&v(&x))), "u32s", &case, seed);
        } else {
            check_good(rep, m, &x, "From<u32>", &case, "u32s", seed);
        }
    }
}

pub fn check_rust_string(rep: &mut Report, m: &mut ReManager, t: &str, seed: u64) {
    let case = t.chars().map(|c| format!("{:x}", c as u32)).collect::<Vec<_>>().join(" ");
    rep.inc("rust_string_probes");
    let valid: Vec<u32> = t.chars().map(|c| c as u32).collect();
    let all_valid = valid.iter().all(|&c| c <= MAXC);
    let items: Vec<(&str, Result<SmtString, String>)> = vec![
        ("From<&str>", guard(|| SmtString::from(t))),
        ("From<String>", guard(|| SmtString::from(t.to_string()))),
        ("parse_smt_literal", guard(|| parse_smt_literal(t))),
    ];
    for (how, r) in items {
        match r {
            Ok(x) => {
                if check_good(rep, m, &x, how, &case, "chars", seed) && all_valid && how != "parse_smt_literal" && v(&x) != valid {
                    rep.violation("char-constructor", &format!("char-constructor:{}", how), format!("{} changed the valid string {}", how, show_str(&valid)), "chars", &case, seed);
                }
            }
            Err(msg) => rep.violation("char-constructor", &format!("char-constructor-panic:{}", how), format!("{}({}) panicked: {}", how, show_str(&valid), msg), "chars", &case, seed),
        }
    }
    let mut it = t.chars();
    if let (Some(c), None) = (it.next(), it.next()) {
        match guard(|| SmtString::from(c)) {
            Ok(x) => {
                if check_good(rep, m, &x, "From<char>", &case, "chars", seed) && (c as u32) <= MAXC && v(&x) != vec![c as u32] {
                    rep.violation("char-constructor", "char-constructor:From<char>", format!("From<char>({:x}) = {}", c as u32, show_str(&v(&x))), "chars", &case, seed);
                }
            }
            Err(msg) => rep.violation("char-constructor", "char-constructor-panic:From<char>", format!("From<char>({:x}) panicked: {}", c as u32, msg), "chars", &case, seed),
        }
    }
}

pub fn run(p: &Params, rep: &mut Report) {
    let seed = p.seed;
    let mut m = ReManager::new();
    let mut rng = p.rng(17);

    // integer constructors: boundary values and random u32
    let bounds: [u32; 14] = [0, 1, 0xFFFC, 0xFFFD, 0xFFFE, 0x2FFFE, 0x2FFFF, 0x30000, 0x30001, 0x10FFFF, 0x110000, 0x7FFFFFFF, 0x80000000, u32::MAX];
    if p.shard == 0 {
        for &a in &bounds {
            check_ints(rep, &mut m, &[a], seed);
            rep.eval(Some(&format!("i{:x}", a)));
            for &b in &bounds {
                check_ints(rep, &mut m, &[a, b, 0x41], seed);
                rep.eval(Some(&format!("i{:x},{:x}", a, b)));
            }
        }
        check_ints(rep, &mut m, &[], seed);
    }
    let n = p.size(30_000, 400_000);
    for _ in 0..n {
        let len = 1 + rng.usize(6);
        let a: Vec<u32> = (0..len)
            .map(|_| match rng.below(4) {
                0 => *rng.pick(&bounds),
                1 => rng.next() as u32,
                2 => 0x2FFF0 + rng.below(0x20) as u32,
                _ => rng.below(0x30000) as u32,
            })
            .collect();
        check_ints(rep, &mut m, &a, seed);
        let mut b = a.clone();
        match rng.below(4) {
            0 => {}
            1 => {
                let i = rng.usize(b.len());
                b[i] ^= 1;
            }
            2 => b.push(0x61),
            _ => {
                b.pop();
            }
        }
        check_value_semantics(rep, &a, &b, seed);
        rep.eval(Some(&format!("i{}", show_str(&a))));
        rep.sample(|| format!("u32 slice {}", show_str(&a)));
    }

    // all chars in U+2FF00..U+30100 and U+10FF00..U+10FFFF, sharded; single and embedded
    let mut cps: Vec<u32> = (0x2FF00..=0x30100).collect();
    cps.extend(0x10FF00..=0x10FFFF);
    cps.extend([0x30000, 0x3FFFF, 0x40000, 0xE0000, 0xF0000, 0x100000]);
    for (i, &cp) in cps.iter().enumerate() {
        if i as u64 % p.nshards != p.shard {
            continue;
        }
        if let Some(c) = char::from_u32(cp) {
            let t1 = c.to_string();
            check_rust_string(rep, &mut m, &t1, seed);
            let t2 = format!("a{}b", c);
            check_rust_string(rep, &mut m, &t2, seed);
            rep.eval(Some(&format!("c{:x}", cp)));
        }
    }
    let n2 = p.size(20_000, 300_000);
    for _ in 0..n2 {
        let len = rng.usize(8);
        let t: String = (0..len)
            .map(|_| {
                let cp = match rng.below(5) {
                    0 => 0x2FFF0 + rng.below(0x20) as u32,
                    1 => 0x30000 + rng.below(0xE0000) as u32,
                    2 => rng.below(0x80) as u32,
                    3 => *rng.pick(&['\\' as u32, 'u' as u32, '{' as u32, '}' as u32, '3' as u32, '0' as u32]),
                    _ => rng.below(0x30000) as u32,
                };
                char::from_u32(cp).unwrap_or('?')
            })
            .collect();
        check_rust_string(rep, &mut m, &t, seed);
        rep.eval(Some(&format!("t{}", t.chars().map(|c| format!("{:x}", c as u32)).collect::<Vec<_>>().join(","))));
        rep.sample(|| format!("rust string with code points {:x?}", t.chars().map(|c| c as u32).collect::<Vec<_>>()));
    }
    // structured escape attempts (pairs of fragments): whatever the parser makes of them must be a good string
    {
        let (valid, malformed) = super::c08::escape_fragments();
        let mut frags: Vec<&String> = valid.iter().collect();
        frags.extend(malformed.iter());
        let mut k = 0u64;
        for a in &frags {
            for b in &frags {
                k += 1;
                if k % p.nshards != p.shard {
                    continue;
                }
                let t = format!("{}{}", a, b);
                check_rust_string(rep, &mut m, &t, seed);
                rep.eval(Some(&format!("f{}", t)));
            }
            // a character beyond the SMT-LIB alphabet right after (and right before) every fragment
            if p.shard == 0 {
                for big in ['\u{30000}', '\u{3FFFF}', '\u{40000}', '\u{10FFFF}'] {
                    for t in [format!("{}{}", a, big), format!("{}{}", big, a), format!("{}{}{}", a, big, a)] {
                        check_rust_string(rep, &mut m, &t, seed);
                        rep.eval(Some(&format!("g{}", t)));
                    }
                }
            }
        }
    }
    // literal escapes that spell out-of-range values
    if p.shard == 0 {
        for t in ["\\u{30000}", "\\u{2FFFF}", "\\u{FFFFF}", "\\u{3ffff}", "\\uFFFF", "\\u{0}", "\\u{110000}"] {
            check_rust_string(rep, &mut m, t, seed);
        }
    }

    // results of string functions, regex replace and get_string on well-formed inputs
    let good: [u32; 8] = [0, 0x41, 0x61, 0x62, 0xFFFD, 0x10000, 0x2FFFE, 0x2FFFF];
    let n3 = p.size(10_000, 150_000);
    for _ in 0..n3 {
        let mk = |rng: &mut Rng, max: usize| -> Vec<u32> { (0..rng.usize(max + 1)).map(|_| *rng.pick(&good)).collect() };
        let (a, b, c) = (mk(&mut rng, 8), mk(&mut rng, 3), mk(&mut rng, 3));
        let (sa, sb, sc) = (SmtString::from(&a[..]), SmtString::from(&b[..]), SmtString::from(&c[..]));
        let i = rng.below(10) as i32 - 1;
        let k = rng.below(10) as i32 - 1;
        let case = format!("{} ; {} ; {} ; {} {}", show_str(&a), show_str(&b), show_str(&c), i, k);
        let outs: Vec<(&str, Result<SmtString, String>)> = vec![
            ("str_concat", guard(|| str_concat(&sa, &sb))),
            ("str_at", guard(|| str_at(&sa, i))),
            ("str_substr", guard(|| str_substr(&sa, i, k))),
            ("str_replace", guard(|| str_replace(&sa, &sb, &sc))),
            ("str_replace_all", guard(|| str_replace_all(&sa, &sb, &sc))),
            ("str_from_int", guard(|| str_from_int(i * 1000 + k))),
            ("str_from_code", guard(|| str_from_code(0x2FFFF - 4 + i + k))),
        ];
        for (how, r) in outs {
            rep.inc("operation_results_checked");
            match r {
                Ok(x) => {
                    check_good(rep, &mut m, &x, how, &case, "ops", seed);
                }
                Err(msg) => rep.violation("op-panic", &format!("op-panic:{}", how), format!("{} panicked on well-formed input {}: {}", how, case, msg), "ops", &case, seed),
            }
        }
        rep.eval(Some(&case));
    }
    // regex replace (wrappers) and get_string on generated expressions
    let nprog = p.size(40, 400);
    for _ in 0..nprog {
        let prog = gen_program(&mut rng, Profile::Boundary, 25);
        let pool = {
            let mut terms = Vec::new();
            let mut ok = true;
            for op in &prog.ops {
                match guard(|| op.apply_wrap(&terms)) {
                    Ok(t) => terms.push(t),
                    Err(_) => {
                        ok = false;
                        break;
                    }
                }
            }
            let _ = ok;
            terms
        };
        let letters: Vec<u32> = prog.points.clone();
        for &t in pool.iter().rev().take(12) {
            let a: Vec<u32> = (0..rng.usize(6)).map(|_| *rng.pick(&letters)).collect();
            let c: Vec<u32> = (0..rng.usize(3)).map(|_| *rng.pick(&good)).collect();
            let (sa, sc) = (SmtString::from(&a[..]), SmtString::from(&c[..]));
            let case = format!("{} ; {}", show_str(&a), show_str(&c));
            for (how, r) in [("str_replace_re", guard(|| w::str_replace_re(&sa, t, &sc))), ("str_replace_re_all", guard(|| w::str_replace_re_all(&sa, t, &sc)))] {
                rep.inc("operation_results_checked");
                if let Ok(x) = r {
                    check_good(rep, &mut m, &x, how, &case, "ops", seed);
                }
            }
            let closure_ok = w::verif_with_manager(|mm| super::rectx::closure_size(mm, t, 800).is_some());
            if closure_ok {
                if let Ok(Some(x)) = guard(|| w::verif_with_manager(|mm| mm.get_string(t))) {
                    rep.inc("operation_results_checked");
                    rep.inc("get_string_results_checked");
                    check_good(rep, &mut m, &x, "get_string", &prog.to_text(), "ops", seed);
                }
            }
        }
        rep.evals(1);
    }
}

pub fn replay(kind: &str, text: &str, seed: u64, rep: &mut Report) -> bool {
    let mut m = ReManager::new();
    let cps: Vec<u32> = text.split_whitespace().filter_map(|t| u32::from_str_radix(t, 16).ok()).collect();
    match kind {
        "u32s" => {
            check_ints(rep, &mut m, &cps, seed);
            true
        }
        "chars" => {
            let t: String = cps.iter().filter_map(|&c| char::from_u32(c)).collect();
            check_rust_string(rep, &mut m, &t, seed);
            true
        }
        "ops" => {
            let p = Params { prop: "C17".into(), seed, shard: 0, nshards: 16, thorough: false, profile: String::new(), scale: 100 };
            run(&p, rep);
            true
        }
        _ => false,
    }
}
