//! C02 — compile / try_compile yield a total deterministic automaton for exactly L(e).
//! Translation validation: every compiled automaton is observed through the public API over the joint
//! break points and compared (product BFS, complete decision) with the reference DFA of the term's own AST.

use super::c01::{cfg, guided_words, words_for};
use super::rectx::*;
use crate::gen::reprog::*;
use crate::oracle::snap::*;
use crate::util::*;
use aws_smt_strings::automata::Automaton;
use aws_smt_strings::regular_expressions::RegLan;
use aws_smt_strings::smt_strings::SmtString;

pub fn closure_cap(thorough: bool) -> usize {
    if thorough {
        6000
    } else {
        2000
    }
}

/// validate one automaton against the reference language of t; returns false on violation
pub fn validate(s: &mut Sess, rep: &mut Report, t: RegLan, auto: &Automaton, k: usize, what: &str, words: &[Vec<u32>], sweep_it: bool) -> bool {
    let pts = automaton_points(auto);
    if s.ctx.eng.ensure_points(&pts) {
        rep.inc("atoms_refined_by_automaton_break_points");
    }
    let dref = match s.ctx.term_dfa(t) {
        Ok(d) => d,
        Err(_) => {
            rep.inc("skipped_refdfa_budget");
            return true;
        }
    };
    let atoms = s.ctx.atoms().clone();
    let snap = match observe(auto, &atoms) {
        Ok(d) => d,
        Err(ObsError::Broken(msg)) => {
            s.viol(rep, "totality", &format!("totality:{}", what), format!("{} of {}: {}", what, term_text(t), msg), k);
            return false;
        }
        Err(ObsError::NonUniform(msg)) => {
            s.viol(rep, "class-uniformity", &format!("class-uniformity:{}", what), format!("{} of {}: {}", what, term_text(t), msg), k);
            return false;
        }
    };
    rep.count("cells_probed", (snap.n() * snap.a * 3) as u64);
    rep.inc("automata_validated");
    rep.max("automaton_states", snap.n() as u64);
    if let Some(cex) = snap.diff(&dref) {
        let wd = atoms.word(&cex);
        // self-check with oracle A
        let r = s.ctx.sref(t);
        let dp = crate::oracle::re::dp_matches(&r, &wd);
        if wd.len() <= 10 && dp != dref.accepts(&cex) {
            rep.harness_error(format!("oracle A/B disagree on {} for {}", show_str(&wd), r.show()));
            return true;
        }
        s.viol(
            rep,
            "language",
            &format!("language:{}", what),
            format!("{} of {} accepts {} = {} but the language says {}", what, term_text(t), show_str(&wd), snap.accepts(&cex), dref.accepts(&cex)),
            k,
        );
        return false;
    }
    // accepts / str_next against the reference on explicit words (exercises the string-level entry points)
    let mut n = 0u64;
    for wd in words {
        let aw = atoms.word_of(wd);
        let want = dref.accepts(&aw);
        let sw = SmtString::from(&wd[..]);
        match guard(|| (auto.accepts(&sw), auto.str_next(auto.initial_state(), &sw).is_final())) {
            Ok((a1, a2)) => {
                n += 1;
                if a1 != want || a2 != want {
                    s.viol(rep, "accepts", &format!("accepts:{}", what), format!("{} of {}: accepts({}) = {}, str_next final = {}, language says {}", what, term_text(t), show_str(wd), a1, a2, want), k);
                    return false;
                }
            }
            Err(msg) => {
                s.viol(rep, "totality", &format!("totality:{}", what), format!("accepts({}) panicked: {}", show_str(wd), msg), k);
                return false;
            }
        }
    }
    rep.count("accepts_checks", n);
    if sweep_it {
        match sweep(auto, &atoms, &snap) {
            Ok(p) => {
                rep.count("full_alphabet_sweep_probes", p);
                rep.inc("automata_swept_over_full_alphabet");
            }
            Err(msg) => {
                s.viol(rep, "class-uniformity", &format!("sweep:{}", what), format!("{} of {}: {}", what, term_text(t), msg), k);
                return false;
            }
        }
    }
    true
}

pub fn check_program(prog: &Program, seed: u64, thorough: bool, rep: &mut Report) {
    let c = cfg(thorough);
    let mut s = Sess::start(prog, seed, thorough, c.budget, c.noise, rep);
    let mut rng = s.rng.clone();
    let words = words_for(&s.ctx, &mut rng, &c);
    let cap = closure_cap(thorough);
    let sweep_every = if thorough { 4 } else { 20 };
    for k in 0..s.run.terms.len() {
        let t = s.run.terms[k];
        let key = format!("{}", s.run.refs[k].show());
        let nontrivial = s.run.refs[k].size() >= 3;
        rep.eval(if nontrivial { Some(&key) } else { None });
        let count = match closure_size(&mut s.m, t, cap) {
            Some(n) => n,
            None => {
                rep.inc("skipped_derivative_budget");
                continue;
            }
        };
        let auto = match guard(|| s.m.compile(t)) {
            Ok(a) => a,
            Err(msg) => {
                s.viol(rep, "compile-panic", "compile-panic", format!("compile({}) panicked: {}", term_text(t), msg), k);
                continue;
            }
        };
        let mut ws: Vec<Vec<u32>> = words.iter().filter(|_| rng.chance(1, 3)).cloned().collect();
        if let Ok(d) = s.ctx.term_dfa(t) {
            let atoms = s.ctx.atoms().clone();
            ws.extend(guided_words(&d, &atoms, &mut rng, 6));
        }
        let sweep_it = rng.usize(sweep_every) == 0 && auto.num_states() <= 60;
        if !validate(&mut s, rep, t, &auto, k, "compile", &ws, sweep_it) {
            continue;
        }
        // the same automaton against the expression as the caller wrote it (SMT-LIB meaning of the construction)
        let rb = s.run.refs[k].clone();
        s.ctx.eng.ensure_points(&automaton_points(&auto));
        if let Ok(db) = s.ctx.dfa(&rb) {
            let atoms = s.ctx.atoms().clone();
            if let Ok(snap) = observe(&auto, &atoms) {
                rep.inc("automata_validated_against_construction");
                if let Some(cex) = snap.diff(&db) {
                    let wd = atoms.word(&cex);
                    s.viol(rep, "language", "language:compile-vs-construction", format!("compile of the construction {} (term {}) accepts {} = {} but the construction's language says {}", short(&rb.show(), 160), term_text(t), show_str(&wd), snap.accepts(&cex), db.accepts(&cex)), k);
                    continue;
                }
            }
        }
        // compiling again (now with a warm derivative cache) must give an equivalent automaton
        if rng.chance(1, 6) {
            match guard(|| s.m.compile(t)) {
                Ok(a2) => {
                    rep.inc("second_compile_validated");
                    if a2.num_states() != auto.num_states() {
                        s.viol(rep, "language", "language:second-compile-size", format!("compiling {} twice gives {} and then {} states", term_text(t), auto.num_states(), a2.num_states()), k);
                    } else {
                        validate(&mut s, rep, t, &a2, k, "second compile", &ws[..ws.len().min(10)], false);
                    }
                }
                Err(msg) => s.viol(rep, "compile-panic", "compile-panic:second", format!("second compile({}) panicked: {}", term_text(t), msg), k),
            }
        }
        // str_next from arbitrary states follows next()
        if auto.num_states() > 1 {
            for _ in 0..3 {
                let st = auto.state(rng.usize(auto.num_states()));
                let wd = rng.pick(&ws).clone();
                let mut cur = st;
                for &c in &wd {
                    cur = auto.next(cur, c);
                }
                let sw = SmtString::from(&wd[..]);
                rep.inc("str_next_from_inner_states");
                match guard(|| auto.str_next(st, &sw).id()) {
                    Ok(id) => {
                        if id != cur.id() {
                            s.viol(rep, "accepts", "accepts:str_next", format!("str_next(state {}, {}) = {} but stepping with next() gives {}", st.id(), show_str(&wd), id, cur.id()), k);
                            break;
                        }
                    }
                    Err(msg) => {
                        s.viol(rep, "totality", "totality:str_next", format!("str_next panicked: {}", msg), k);
                        break;
                    }
                }
            }
        }
        // try_compile with a sufficient bound must give an equivalent automaton
        if rng.chance(1, 3) {
            let bound = count + rng.usize(3) * 7;
            match guard(|| s.m.try_compile(t, bound)) {
                Ok(Some(a2)) => {
                    rep.inc("try_compile_validated");
                    validate(&mut s, rep, t, &a2, k, "try_compile", &ws[..ws.len().min(20)], false);
                }
                Ok(None) => { /* bound semantics belong to C19 */ }
                Err(msg) => s.viol(rep, "compile-panic", "try_compile-panic", format!("try_compile({}, {}) panicked: {}", term_text(t), bound, msg), k),
            }
        }
    }
    rep.count("refdfa_built", s.ctx.eng.built);
}

pub fn run(p: &Params, rep: &mut Report) {
    if p.shard == 8 {
        // depth instead of width: terms nested a few hundred (thousand) levels deep
        for d in if p.thorough { vec![64u32, 257, 1000, 3000] } else { vec![65u32, 256, 700 + (p.seed as u32 % 7) * 50] } {
            super::ladder::deep_nesting(rep, "C02", d, p.seed);
        }
    }
    if p.shard == 7 {
        // operand and class counts beyond 2^10 (and, for one term, beyond 2^16)
        for n in if p.thorough { vec![1100u32, 2100, 4200, 1300 + (p.seed as u32 * 37) % 1700] } else { vec![1100u32, 301 + (p.seed as u32 * 397) % 1700] } {
            super::ladder::wide_union(rep, "C02", n, p.seed);
        }
        // first letters 0, 1, 2, ...: the class index of a character is the character itself (256+ classes)
        super::ladder::wide_union_from(rep, "C02", 300, 0, p.seed);
        super::ladder::wide_tree(rep, "C02", 65_600, p.seed);
    }
    if p.shard == 2 {
        let n = if p.thorough { 20_000 } else { 8_000 };
        super::deep::probe(rep, "re-literal", n, &super::deep::expect_re_literal(n), "compile", p.seed);
    }
    for_firstchar_programs(p, rep, p.size(25, 250), |prog, seed, rep| check_program(prog, seed, p.thorough, rep));
    for_max_loop_programs(p, rep, p.size(6, 60), |prog, seed, rep| check_program(prog, seed, p.thorough, rep));
    let stride = if p.thorough { 1 } else { 2 };
    for_tiny_programs(p, rep, stride, p.size(150, 3000), |prog, seed, rep| check_program(prog, seed, p.thorough, rep));
    let n = p.size(120, 1200);
    for_programs(p, rep, 2, n, &STD_WEIGHTS, (20, 50), |prog, seed, rep| check_program(prog, seed, p.thorough, rep));
}

pub fn replay(kind: &str, text: &str, seed: u64, rep: &mut Report) -> bool {
    if kind != KIND_MGR {
        return false;
    }
    replay_program(text, rep, |p, rep| check_program(p, seed, false, rep))
}
