//! C20 — CharSet operations are exact interval algebra. Exhaustive over a boundary domain.

use crate::util::*;
use aws_smt_strings::character_sets::CharSet;
use std::cmp::Ordering;

const MAXC: u32 = 0x2FFFF;

thread_local!(static DOMAIN: std::cell::RefCell<Vec<u32>> = std::cell::RefCell::new(Vec::new()));

/// the three exhaustive domains: alphabet boundaries, the surrogate block, the BMP boundary
fn domains() -> Vec<Vec<u32>> {
    let mut d0: Vec<u32> = (0..=5).collect();
    d0.extend(0x2FFFA..=0x2FFFF);
    let d1 = vec![0xD7FE, 0xD7FF, 0xD800, 0xD801, 0xDBFF, 0xDC00, 0xDFFE, 0xDFFF, 0xE000, 0xE001];
    let d2 = vec![0xFFFC, 0xFFFD, 0xFFFE, 0xFFFF, 0x10000, 0x10001, 0x7F, 0x80];
    vec![d0, d1, d2]
}

fn points() -> Vec<u32> {
    DOMAIN.with(|d| {
        let mut v = d.borrow().clone();
        v.sort_unstable();
        v
    })
}

/// probe grid: every domain point with both neighbours (so that every gap between two domain intervals contains
/// a grid point), plus 0, a mid-alphabet point and MAXC
fn grid() -> Vec<u32> {
    let mut v = vec![0, 0x18000, MAXC];
    for p in points() {
        v.push(p);
        if p > 0 {
            v.push(p - 1);
        }
        if p < MAXC {
            v.push(p + 1);
        }
    }
    v.sort_unstable();
    v.dedup();
    v
}

fn lohi(s: &CharSet) -> (u32, u32) {
    let lo = s.pick();
    (lo, lo + (s.size() - 1))
}

fn txt(a: (u32, u32)) -> String {
    format!("{:x}-{:x}", a.0, a.1)
}

fn members(a: (u32, u32), g: &[u32]) -> Vec<bool> {
    g.iter().map(|&x| a.0 <= x && x <= a.1).collect()
}

pub fn check_single(rep: &mut Report, a: (u32, u32), seed: u64) {
    let g = grid();
    let case = txt(a);
    let s = CharSet::range(a.0, a.1);
    macro_rules! bad {
        ($rule:expr, $($arg:tt)*) => {
            rep.violation($rule, &format!("{}:{}", $rule, case), format!($($arg)*), "charset1", &case, seed)
        };
    }
    rep.inc("singles");
    for &x in &g {
        let inside = a.0 <= x && x <= a.1;
        if s.contains(x) != inside {
            bad!("contains", "[{}].contains({:x}) = {}", case, x, s.contains(x));
        }
        if s.is_before(x) != (a.1 < x) {
            bad!("is_before", "[{}].is_before({:x}) = {}", case, x, s.is_before(x));
        }
        if s.is_after(x) != (x < a.0) {
            bad!("is_after", "[{}].is_after({:x}) = {}", case, x, s.is_after(x));
        }
    }
    // size by counting (small sets) or by the defining formula checked on both forms
    let size = (a.1 - a.0) as u64 + 1;
    if s.size() as u64 != size {
        bad!("size", "[{}].size() = {}", case, s.size());
    }
    if s.is_singleton() != (size == 1) {
        bad!("is_singleton", "[{}].is_singleton() = {}", case, s.is_singleton());
    }
    if s.is_alphabet() != (a == (0, MAXC)) {
        bad!("is_alphabet", "[{}].is_alphabet() = {}", case, s.is_alphabet());
    }
    let p = s.pick();
    if !(a.0 <= p && p <= a.1) {
        bad!("pick", "[{}].pick() = {:x} is not a member", case, p);
    }
    if a.0 == a.1 && lohi(&CharSet::singleton(a.0)) != a {
        bad!("singleton", "CharSet::singleton({:x}) is wrong", a.0);
    }
    if lohi(&CharSet::all_chars()) != (0, MAXC) {
        bad!("all_chars", "CharSet::all_chars() is wrong");
    }
}

pub fn check_pair(rep: &mut Report, a: (u32, u32), b: (u32, u32), seed: u64) {
    let g = grid();
    let case = format!("{} {}", txt(a), txt(b));
    let (sa, sb) = (CharSet::range(a.0, a.1), CharSet::range(b.0, b.1));
    let (ma, mb) = (members(a, &g), members(b, &g));
    macro_rules! bad {
        ($rule:expr, $($arg:tt)*) => {
            rep.violation($rule, &format!("{}:{}", $rule, case), format!($($arg)*), "charset2", &case, seed)
        };
    }
    rep.inc("pairs");
    // covers: every member of b is a member of a (end points decide, grid confirms)
    let cov = a.0 <= b.0 && b.1 <= a.1;
    let cov_grid = (0..g.len()).all(|i| !mb[i] || ma[i]);
    if cov != cov_grid {
        rep.harness_error(format!("covers oracle inconsistent on {}", case));
    }
    if sa.covers(&sb) != cov {
        bad!("covers", "[{}].covers([{}]) = {}", txt(a), txt(b), sa.covers(&sb));
    }
    // inter: pointwise
    let want: Vec<bool> = (0..g.len()).map(|i| ma[i] && mb[i]).collect();
    match guard(|| sa.inter(&sb)) {
        Ok(None) => {
            if want.iter().any(|&x| x) {
                bad!("inter", "[{}].inter([{}]) = None but the sets share a character", txt(a), txt(b));
            }
        }
        Ok(Some(r)) => {
            let mr = members(lohi(&r), &g);
            if mr != want || !want.iter().any(|&x| x) {
                bad!("inter", "[{}].inter([{}]) = [{}] is not the intersection", txt(a), txt(b), txt(lohi(&r)));
            }
        }
        Err(m) => bad!("inter", "inter panicked: {}", m),
    }
    // union: Some iff the pointwise union is contiguous on the grid (every gap of the domain contains a grid point)
    let un: Vec<bool> = (0..g.len()).map(|i| ma[i] || mb[i]).collect();
    let first = un.iter().position(|&x| x).unwrap();
    let last = un.iter().rposition(|&x| x).unwrap();
    let contiguous = (first..=last).all(|i| un[i]);
    match guard(|| sa.union(&sb)) {
        Ok(None) => {
            if contiguous {
                bad!("union", "[{}].union([{}]) = None although the union is an interval", txt(a), txt(b));
            }
        }
        Ok(Some(r)) => {
            let lr = lohi(&r);
            if !contiguous || members(lr, &g) != un || lr != (a.0.min(b.0), a.1.max(b.1)) {
                bad!("union", "[{}].union([{}]) = [{}] is not the union / the union is not an interval", txt(a), txt(b), txt(lr));
            }
        }
        Err(m) => bad!("union", "union panicked: {}", m),
    }
    // partial order: Equal iff equal, Less iff every member of a is below every member of b
    let want_ord = if a == b {
        Some(Ordering::Equal)
    } else if a.1 < b.0 {
        Some(Ordering::Less)
    } else if b.1 < a.0 {
        Some(Ordering::Greater)
    } else {
        None
    };
    if sa.partial_cmp(&sb) != want_ord {
        bad!("partial_cmp", "[{}].partial_cmp([{}]) = {:?}, expected {:?}", txt(a), txt(b), sa.partial_cmp(&sb), want_ord);
    }
    // the comparison operators follow the partial order (lt/le/gt/ge may be implemented separately)
    let ops = (sa < sb, sa <= sb, sa > sb, sa >= sb);
    let want_ops = (want_ord == Some(Ordering::Less), matches!(want_ord, Some(Ordering::Less) | Some(Ordering::Equal)), want_ord == Some(Ordering::Greater), matches!(want_ord, Some(Ordering::Greater) | Some(Ordering::Equal)));
    if ops != want_ops {
        bad!("partial_cmp", "[{}] vs [{}]: (<, <=, >, >=) = {:?}, expected {:?}", txt(a), txt(b), ops, want_ops);
    }
    {
        use std::hash::{Hash, Hasher};
        let h = |x: &CharSet| {
            let mut s = std::collections::hash_map::DefaultHasher::new();
            x.hash(&mut s);
            s.finish()
        };
        let copy = sa;
        #[allow(clippy::clone_on_copy)]
        let cl = sa.clone();
        if copy != sa || cl != sa || h(&copy) != h(&sa) || (a == b && h(&sa) != h(&sb)) || lohi(&copy) != a {
            bad!("eq", "[{}]: copy / clone / hash do not behave as values", txt(a));
        }
    }
    if (sa == sb) != (a == b) {
        bad!("eq", "[{}] == [{}] is {}", txt(a), txt(b), sa == sb);
    }
}

pub fn check_list(rep: &mut Report, l: &[(u32, u32)], seed: u64) {
    let g = grid();
    let case = l.iter().map(|&x| txt(x)).collect::<Vec<_>>().join(" ");
    let sets: Vec<CharSet> = l.iter().map(|&(a, b)| CharSet::range(a, b)).collect();
    let want: Vec<bool> = (0..g.len()).map(|i| l.iter().all(|&x| x.0 <= g[i] && g[i] <= x.1)).collect();
    rep.inc("lists");
    match guard(|| CharSet::inter_list(&sets)) {
        Ok(None) => {
            if want.iter().any(|&x| x) {
                rep.violation("inter_list", &format!("inter_list:{}", case), format!("inter_list([{}]) = None but the intersection is not empty", case), "charsetn", &case, seed);
            }
        }
        Ok(Some(r)) => {
            if members(lohi(&r), &g) != want || !want.iter().any(|&x| x) {
                rep.violation("inter_list", &format!("inter_list:{}", case), format!("inter_list([{}]) = [{}]", case, txt(lohi(&r))), "charsetn", &case, seed);
            }
        }
        Err(m) => rep.violation("inter_list", &format!("inter_list:{}", case), format!("inter_list panicked: {}", m), "charsetn", &case, seed),
    }
}

fn all_intervals() -> Vec<(u32, u32)> {
    let p = points();
    let mut v = Vec::new();
    for i in 0..p.len() {
        for j in i..p.len() {
            v.push((p[i], p[j]));
        }
    }
    v
}

fn set_domain_for(l: &[(u32, u32)]) {
    // choose the domain that contains the end points of the case (replay)
    for d in domains() {
        if l.iter().all(|&(a, b)| d.contains(&a) && d.contains(&b)) {
            DOMAIN.with(|x| *x.borrow_mut() = d);
            return;
        }
    }
    DOMAIN.with(|x| *x.borrow_mut() = domains()[0].clone());
}

pub fn run(p: &Params, rep: &mut Report) {
    let seed = p.seed;
    // the two extra domains first (singles and pairs), then the boundary domain with lists as before
    let mut idx = 0u64;
    for d in domains().into_iter().skip(1) {
        DOMAIN.with(|x| *x.borrow_mut() = d);
        let iv = all_intervals();
        rep.count("intervals_in_extra_domains", iv.len() as u64);
        for &a in &iv {
            idx += 1;
            if idx % p.nshards == p.shard {
                check_single(rep, a, seed);
                rep.eval(Some(&txt(a)));
                rep.inc("extra_domain_singles");
            }
            for &b in &iv {
                idx += 1;
                if idx % p.nshards == p.shard {
                    check_pair(rep, a, b, seed);
                    rep.eval(Some(&format!("{} {}", txt(a), txt(b))));
                    rep.inc("extra_domain_pairs");
                }
            }
        }
    }
    DOMAIN.with(|x| *x.borrow_mut() = domains()[0].clone());
    let iv = all_intervals();
    rep.count("intervals_in_domain", iv.len() as u64);
    let mut idx = 0u64;
    for &a in &iv {
        idx += 1;
        if idx % p.nshards == p.shard {
            check_single(rep, a, seed);
            rep.eval(Some(&txt(a)));
        }
        for &b in &iv {
            idx += 1;
            if idx % p.nshards == p.shard {
                check_pair(rep, a, b, seed);
                rep.eval(Some(&format!("{} {}", txt(a), txt(b))));
                rep.sample(|| format!("pair [{}] [{}]", txt(a), txt(b)));
            }
        }
    }
    // lists of up to 3: exhaustive in thorough, sampled in quick
    check_list(rep, &[], seed);
    let mut rng = p.rng(20);
    if p.thorough {
        for &a in &iv {
            for &b in &iv {
                idx += 1;
                if idx % p.nshards != p.shard {
                    continue;
                }
                for &c in &iv {
                    check_list(rep, &[a, b, c], seed);
                    rep.evals(1);
                }
                rep.distinct_key(&format!("l{} {}", txt(a), txt(b)));
            }
        }
    } else {
        // ALL lists of three over the 15 intervals with end points in {0,1,2,MAX-1,MAX}
        let small: Vec<(u32, u32)> = iv.iter().copied().filter(|&(a, b)| [0, 1, 2, MAXC - 1, MAXC].contains(&a) && [0, 1, 2, MAXC - 1, MAXC].contains(&b)).collect();
        let mut k = 0u64;
        for &a in &small {
            for &b in &small {
                for &c in &small {
                    k += 1;
                    if k % p.nshards == p.shard {
                        check_list(rep, &[a, b, c], seed);
                        rep.eval(Some(&format!("t{:?}", [a, b, c])));
                    }
                }
            }
        }
        for _ in 0..3000 {
            let n = 1 + rng.usize(3);
            let l: Vec<(u32, u32)> = (0..n).map(|_| *rng.pick(&iv)).collect();
            check_list(rep, &l, seed);
            rep.eval(Some(&format!("l{:?}", l)));
        }
    }
    // random intervals away from the boundaries
    let n = p.size(50_000, 500_000);
    for _ in 0..n {
        let mk = |rng: &mut Rng| {
            let a = rng.below(0x30000) as u32;
            let b = if rng.chance(1, 2) { (a + rng.below(6) as u32).min(MAXC) } else { rng.below(0x30000) as u32 };
            (a.min(b), a.max(b))
        };
        let a = mk(&mut rng);
        let mut b = mk(&mut rng);
        if rng.chance(1, 3) {
            // adjacent or overlapping by construction
            let st = (a.1 + rng.below(3) as u32).saturating_sub(1).min(MAXC);
            b = (st, (st + rng.below(9) as u32).min(MAXC));
        }
        check_pair_arith(rep, a, b, seed);
        rep.eval(Some(&format!("r{} {}", txt(a), txt(b))));
    }
}

/// random pairs: facts derived by arithmetic on end points (the grid argument does not apply)
fn check_pair_arith(rep: &mut Report, a: (u32, u32), b: (u32, u32), seed: u64) {
    let case = format!("{} {}", txt(a), txt(b));
    let (sa, sb) = (CharSet::range(a.0, a.1), CharSet::range(b.0, b.1));
    rep.inc("random_pairs");
    let lo = a.0.max(b.0);
    let hi = a.1.min(b.1);
    let want_inter = if lo <= hi { Some((lo, hi)) } else { None };
    if sa.inter(&sb).map(|r| lohi(&r)) != want_inter {
        rep.violation("inter", &format!("inter:{}", case), format!("[{}].inter([{}]) wrong", txt(a), txt(b)), "charset2r", &case, seed);
    }
    // union is an interval iff no character lies strictly between the two sets
    let gap = (a.1 as u64 + 1 < b.0 as u64) || (b.1 as u64 + 1 < a.0 as u64);
    let want_union = if gap { None } else { Some((a.0.min(b.0), a.1.max(b.1))) };
    match guard(|| sa.union(&sb)) {
        Ok(r) => {
            if r.map(|r| lohi(&r)) != want_union {
                rep.violation("union", &format!("union:{}", case), format!("[{}].union([{}]) = {:?}, expected {:?}", txt(a), txt(b), r.map(|r| txt(lohi(&r))), want_union.map(txt)), "charset2r", &case, seed);
            }
        }
        Err(m) => rep.violation("union", &format!("union:{}", case), format!("union panicked: {}", m), "charset2r", &case, seed),
    }
    if sa.covers(&sb) != (a.0 <= b.0 && b.1 <= a.1) {
        rep.violation("covers", &format!("covers:{}", case), format!("[{}].covers([{}]) wrong", txt(a), txt(b)), "charset2r", &case, seed);
    }
}

fn parse(t: &str) -> Vec<(u32, u32)> {
    t.split_whitespace()
        .filter_map(|s| {
            let mut it = s.split('-');
            Some((u32::from_str_radix(it.next()?, 16).ok()?, u32::from_str_radix(it.next()?, 16).ok()?))
        })
        .collect()
}

pub fn replay(kind: &str, text: &str, seed: u64, rep: &mut Report) -> bool {
    let l = parse(text);
    set_domain_for(&l);
    match (kind, l.len()) {
        ("charset1", 1) => check_single(rep, l[0], seed),
        ("charset2", 2) => check_pair(rep, l[0], l[1], seed),
        ("charset2r", 2) => check_pair_arith(rep, l[0], l[1], seed),
        ("charsetn", _) => check_list(rep, &l, seed),
        _ => return false,
    }
    true
}
