//! C15 — LoopRange arithmetic equals arithmetic on the integer sets it denotes.
//! Exhaustive over all ranges with start <= 8 and end <= 10 or infinite; sets truncated at LIM.

use crate::util::*;
use aws_smt_strings::loop_ranges::LoopRange;

const LIM: u64 = 320;

#[derive(Clone, Copy, Debug, PartialEq)]
struct Rg(u32, Option<u32>);

impl Rg {
    fn mk(&self) -> LoopRange {
        match self.1 {
            Some(j) => LoopRange::finite(self.0, j),
            None => LoopRange::infinite(self.0),
        }
    }
    fn has(&self, x: u64) -> bool {
        x >= self.0 as u64 && self.1.map_or(true, |j| x <= j as u64)
    }
    fn set(&self) -> Vec<bool> {
        (0..=LIM).map(|x| self.has(x)).collect()
    }
    fn txt(&self) -> String {
        match self.1 {
            Some(j) => format!("[{},{}]", self.0, j),
            None => format!("[{},inf)", self.0),
        }
    }
}

fn of(r: &LoopRange) -> Rg {
    let (a, b) = r.verif_bounds();
    Rg(a, b)
}

fn set_eq_upto(a: &[bool], b: &[bool], upto: u64) -> Option<u64> {
    (0..=upto).find(|&x| a[x as usize] != b[x as usize])
}

/// { x + y | x in a, y in b } truncated
fn sums(a: &[bool], b: &[bool]) -> Vec<bool> {
    let mut r = vec![false; LIM as usize + 1];
    for x in 0..=LIM as usize {
        if a[x] {
            for y in 0..=(LIM as usize - x) {
                if b[y] {
                    r[x + y] = true;
                }
            }
        }
    }
    r
}

/// k-fold sum of the set a (k = 0 gives {0})
fn kfold(a: &[bool], k: u32) -> Vec<bool> {
    let mut r = vec![false; LIM as usize + 1];
    r[0] = true;
    for _ in 0..k {
        r = sums(&r, a);
    }
    r
}

pub fn check_pair(rep: &mut Report, r: Rg, s: Rg, seed: u64) {
    let case = format!("{} {}", r.txt(), s.txt());
    let (lr, ls) = (r.mk(), s.mk());
    let (sr, ss) = (r.set(), s.set());
    // sets are exact up to LIM: only elements above LIM are cut
    let half = LIM;
    macro_rules! bad {
        ($rule:expr, $($arg:tt)*) => {
            rep.violation($rule, &format!("{}:{}", $rule, case), format!($($arg)*), "ranges", &case, seed)
        };
    }
    rep.inc("pairs");
    {
        use std::hash::{Hash, Hasher};
        let h = |x: &LoopRange| {
            let mut s = std::collections::hash_map::DefaultHasher::new();
            x.hash(&mut s);
            s.finish()
        };
        let copy = lr;
        #[allow(clippy::clone_on_copy)]
        let cl = lr.clone();
        if (lr == ls) != (r == s) || copy != lr || cl != lr || h(&copy) != h(&lr) || ((r == s) && h(&lr) != h(&ls)) {
            bad!("value-semantics", "LoopRange {} vs {}: ==, copy, clone or hash do not follow the bounds", r.txt(), s.txt());
        }
    }
    // add
    match guard(|| lr.add(&ls)) {
        Ok(x) => {
            if let Some(w) = set_eq_upto(&of(&x).set(), &sums(&sr, &ss), half) {
                bad!("add", "{}.add({}) = {} disagrees with the set of sums at {}", r.txt(), s.txt(), of(&x).txt(), w);
            }
        }
        Err(m) => bad!("add", "add panicked: {}", m),
    }
    // includes
    let inc = (0..=LIM).all(|x| !s.has(x) || r.has(x)) && (s.1.is_some() || r.1.is_none());
    if lr.includes(&ls) != inc {
        bad!("includes", "{}.includes({}) = {} but set inclusion is {}", r.txt(), s.txt(), lr.includes(&ls), inc);
    }
    // mul contains every product; right_mul_is_exact iff union of y-fold sums == mul
    match guard(|| (lr.mul(&ls), lr.right_mul_is_exact(&ls))) {
        Ok((m, exact)) => {
            let ms = of(&m).set();
            // products
            for x in 0..=40u64 {
                for y in 0..=40u64 {
                    if r.has(x) && s.has(y) && x * y <= LIM && !ms[(x * y) as usize] {
                        bad!("mul", "{}.mul({}) = {} does not contain {}*{}", r.txt(), s.txt(), of(&m).txt(), x, y);
                        return;
                    }
                }
            }
            // union over y in s of the y-fold sums of r. Sets are exact up to LIM (only elements above LIM are cut).
            // y <= LIM suffices: for r.start >= 1 the y-fold sum starts at y*r.start > LIM, and for r.start = 0 the
            // part below LIM of a later y-fold sum is already given by y = LIM (present whenever s is infinite).
            let mut un = vec![false; LIM as usize + 1];
            let mut fold = vec![false; LIM as usize + 1];
            fold[0] = true;
            for y in 0..=LIM {
                if y > 0 {
                    fold = sums(&fold, &sr);
                }
                if s.has(y) {
                    for i in 0..=LIM as usize {
                        un[i] = un[i] || fold[i];
                    }
                }
            }
            let upto = LIM;
            let same = set_eq_upto(&un, &ms, upto).is_none();
            if exact != same {
                bad!("exact", "{}.right_mul_is_exact({}) = {} but union of y-fold sums {} the interval {} (first difference at {:?})", r.txt(), s.txt(), exact, if same { "equals" } else { "differs from" }, of(&m).txt(), set_eq_upto(&un, &ms, upto));
            }
        }
        Err(m) => bad!("mul", "mul/right_mul_is_exact panicked: {}", m),
    }
}

pub fn check_single(rep: &mut Report, r: Rg, seed: u64) {
    let case = r.txt();
    let lr = r.mk();
    let sr = r.set();
    macro_rules! bad {
        ($rule:expr, $($arg:tt)*) => {
            rep.violation($rule, &format!("{}:{}", $rule, case), format!($($arg)*), "ranges", &case, seed)
        };
    }
    rep.inc("singles");
    // basic predicates
    if lr.start() != r.0 || lr.is_finite() != r.1.is_some() || lr.is_infinite() != r.1.is_none() || lr.is_point() != (r.1 == Some(r.0)) || lr.is_zero() != (r == Rg(0, Some(0))) || lr.is_one() != (r == Rg(1, Some(1))) || lr.is_all() != (r == Rg(0, None)) {
        bad!("predicates", "predicates of {} are wrong", r.txt());
    }
    for x in 0..=30u32 {
        if lr.contains(x) != r.has(x as u64) {
            bad!("contains", "{}.contains({}) = {}", r.txt(), x, lr.contains(x));
        }
    }
    for x in [u32::MAX, u32::MAX - 1, 1 << 31] {
        if lr.contains(x) != r.has(x as u64) {
            bad!("contains", "{}.contains({}) = {}", r.txt(), x, lr.contains(x));
        }
    }
    // shift: predecessors, with 0 kept at 0
    let sh = of(&lr.shift()).set();
    let mut want = vec![false; LIM as usize + 1];
    for x in 0..=LIM as usize {
        if sr[x] {
            want[x.saturating_sub(1)] = true;
        }
    }
    if let Some(w) = set_eq_upto(&sh, &want, LIM - 1) {
        bad!("shift", "{}.shift() = {} disagrees with the set of predecessors at {}", r.txt(), of(&lr.shift()).txt(), w);
    }
    // scale and add_point
    for k in 0..=8u32 {
        match guard(|| lr.scale(k)) {
            Ok(x) => {
                if let Some(w) = set_eq_upto(&of(&x).set(), &kfold(&sr, k), LIM) {
                    // the k-fold sum of an interval is an interval; compare as sets
                    bad!("scale", "{}.scale({}) = {} disagrees with the {}-fold sum at {}", r.txt(), k, of(&x).txt(), k, w);
                }
            }
            Err(m) => bad!("scale", "scale panicked: {}", m),
        }
        match guard(|| lr.add_point(k)) {
            Ok(x) => {
                let mut want = vec![false; LIM as usize + 1];
                for i in 0..=(LIM as usize - k as usize) {
                    want[i + k as usize] = sr[i];
                }
                if let Some(w) = set_eq_upto(&of(&x).set(), &want, LIM) {
                    bad!("add-point", "{}.add_point({}) = {} wrong at {}", r.txt(), k, of(&x).txt(), w);
                }
            }
            Err(m) => bad!("add-point", "add_point panicked: {}", m),
        }
    }
}

/// large values: a documented overflow panic is fine, a silently wrapped result is a violation
fn check_large(rep: &mut Report, rng: &mut Rng, seed: u64) {
    let big = [u32::MAX, u32::MAX - 1, 1 << 31, (1 << 31) + 1, 1 << 16, (1 << 16) + 1, 65535, 3, 2, 1, 0];
    for _ in 0..400 {
        let a = *rng.pick(&big);
        let b = *rng.pick(&big);
        let c = *rng.pick(&big);
        let d = *rng.pick(&big);
        let r = Rg(a.min(b), if rng.chance(1, 4) { None } else { Some(a.max(b)) });
        let s = Rg(c.min(d), if rng.chance(1, 4) { None } else { Some(c.max(d)) });
        let case = format!("{} {}", r.txt(), s.txt());
        rep.inc("large_value_probes");
        let (lr, ls) = (r.mk(), s.mk());
        if let Ok(x) = guard(|| lr.add(&ls)) {
            let x = of(&x);
            let lo = r.0 as u64 + s.0 as u64;
            let hi = match (r.1, s.1) {
                (Some(p), Some(q)) => Some(p as u64 + q as u64),
                _ => None,
            };
            if x.0 as u64 != lo || x.1.map(|v| v as u64) != hi {
                rep.violation("overflow", &format!("overflow:add:{}", case), format!("{}.add({}) = {} (silent wrap)", r.txt(), s.txt(), x.txt()), "ranges", &case, seed);
            }
        }
        if let Ok(x) = guard(|| lr.mul(&ls)) {
            let x = of(&x);
            let zero = r == Rg(0, Some(0)) || s == Rg(0, Some(0));
            let lo = if zero { 0 } else { r.0 as u64 * s.0 as u64 };
            let hi = if zero {
                Some(0)
            } else {
                match (r.1, s.1) {
                    (Some(p), Some(q)) => Some(p as u64 * q as u64),
                    _ => None,
                }
            };
            if x.0 as u64 != lo || x.1.map(|v| v as u64) != hi {
                rep.violation("overflow", &format!("overflow:mul:{}", case), format!("{}.mul({}) = {} (silent wrap)", r.txt(), s.txt(), x.txt()), "ranges", &case, seed);
            }
        }
        if let Ok(x) = guard(|| lr.scale(c)) {
            let x = of(&x);
            let lo = if c == 0 { 0 } else { r.0 as u64 * c as u64 };
            let hi = if c == 0 { Some(0) } else { r.1.map(|p| p as u64 * c as u64) };
            if x.0 as u64 != lo || x.1.map(|v| v as u64) != hi {
                rep.violation("overflow", &format!("overflow:scale:{}", case), format!("{}.scale({}) = {} (silent wrap)", r.txt(), c, x.txt()), "ranges", &case, seed);
            }
        }
        // exactness on large values: compare with the closed form derived from the definition
        if let Ok(e) = guard(|| lr.right_mul_is_exact(&ls)) {
            let want = exact_by_definition(r, s);
            if let Some(w) = want {
                if e != w {
                    rep.violation("exact", &format!("exact-large:{}", case), format!("{}.right_mul_is_exact({}) = {} but by enumeration of gaps it is {}", r.txt(), s.txt(), e, w), "ranges", &case, seed);
                }
            }
        }
        rep.evals(1);
    }
}

/// union over y in s of [y*a, y*b] is an interval iff consecutive pieces leave no gap; u128 arithmetic
fn exact_by_definition(r: Rg, s: Rg) -> Option<bool> {
    let a = r.0 as u128;
    let c = s.0 as u128;
    if s.1 == Some(s.0) {
        return Some(true);
    }
    match r.1 {
        None => {
            // pieces [y*a, inf): union = [c*a, inf) unless c = 0 where {0} u [a, inf) needs a <= 1
            Some(c > 0 || a <= 1)
        }
        Some(b) => {
            let b = b as u128;
            // gaps between y and y+1 for y >= c (pieces grow, so the first gap is the widest relative one)
            // no gap iff (y+1)*a <= y*b + 1 for all y in [c, d-1]; it suffices to test y = c (monotone in y)
            // but do it by direct enumeration of up to 64 consecutive y to stay independent of that argument
            let d = s.1.map(|x| x as u128);
            let mut y = c;
            let mut n = 0;
            loop {
                if let Some(dd) = d {
                    if y >= dd {
                        break;
                    }
                }
                if (y + 1) * a > y * b + 1 {
                    return Some(false);
                }
                y += 1;
                n += 1;
                if n > 64 {
                    break;
                }
            }
            Some(true)
        }
    }
}

fn all_ranges(thorough: bool) -> Vec<Rg> {
    // quick: start <= 8, end <= 10; thorough: start <= 12, end <= 16 (products stay below LIM, first gaps below 200)
    let (ms, me) = if thorough { (12u32, 16u32) } else { (8u32, 10u32) };
    let mut v = Vec::new();
    for i in 0..=ms {
        for j in i..=me {
            v.push(Rg(i, Some(j)));
        }
        v.push(Rg(i, None));
    }
    v
}

pub fn run(p: &Params, rep: &mut Report) {
    let seed = p.seed;
    let rs = all_ranges(p.thorough);
    let mut idx = 0u64;
    for &r in &rs {
        for &s in &rs {
            idx += 1;
            if idx % p.nshards == p.shard {
                check_pair(rep, r, s, seed);
                rep.eval(Some(&format!("{} {}", r.txt(), s.txt())));
                rep.sample(|| format!("pair {} {}", r.txt(), s.txt()));
            }
        }
    }
    for (i, &r) in rs.iter().enumerate() {
        if i as u64 % p.nshards == p.shard {
            check_single(rep, r, seed);
            rep.eval(Some(&r.txt()));
        }
    }
    // the largest finite upper bound is not "unbounded": equality, hashing-as-map-key and inclusion keep them apart
    for lo in [0u32, 1, 2, 7, 65_536, u32::MAX] {
        let (f, i) = (LoopRange::finite(lo, u32::MAX), LoopRange::infinite(lo));
        rep.inc("max_bound_vs_unbounded_probes");
        let mut set = std::collections::HashSet::new();
        set.insert(f);
        set.insert(i);
        if f == i || set.len() != 2 || !i.includes(&f) || f.includes(&i) || f.is_infinite() || !i.is_infinite() {
            let case = format!("[{},{}] [{},inf)", lo, u32::MAX, lo);
            rep.violation("value-semantics", &format!("value-semantics:{}", case), format!("finite({lo}, u32::MAX) and infinite({lo}): == is {}, a set of the two has {} elements, infinite.includes(finite) = {}, finite.includes(infinite) = {}", f == i, set.len(), i.includes(&f), f.includes(&i)), "ranges", &case, seed);
        }
    }
    rep.count("ranges_in_domain", rs.len() as u64);
    let mut rng = p.rng(15);
    check_large(rep, &mut rng, seed);
    // grid over large bounds: every (a, b-a, c, d-c) from a list that straddles 2^15.5, 2^16, 2^31, 2^32
    let vals: [u64; 9] = [0, 1, 2, 1000, 46341, 65535, 65536, 65537, 2_000_000_000];
    let widths: [Option<u64>; 6] = [Some(0), Some(1), Some(50_000), Some(65_536), Some(2_147_483_648), None];
    let mut gi = 0u64;
    for &a in &vals {
        for &wa in &widths {
            for &c in &vals {
                for &wc in &widths {
                    gi += 1;
                    if gi % p.nshards != p.shard {
                        continue;
                    }
                    let mk = |lo: u64, w: Option<u64>| -> Option<Rg> {
                        match w {
                            None => Some(Rg(lo as u32, None)),
                            Some(w) => {
                                let hi = lo + w;
                                if hi > u32::MAX as u64 {
                                    None
                                } else {
                                    Some(Rg(lo as u32, Some(hi as u32)))
                                }
                            }
                        }
                    };
                    if let (Some(r), Some(s)) = (mk(a, wa), mk(c, wc)) {
                        rep.inc("large_grid_pairs");
                        let case = format!("{} {}", r.txt(), s.txt());
                        let (lr, ls) = (r.mk(), s.mk());
                        // a panic (documented overflow) is acceptable; a returned value must be the true one
                        if let (Ok(e), Some(w)) = (guard(|| lr.right_mul_is_exact(&ls)), exact_by_definition(r, s)) {
                            if e != w {
                                rep.violation("exact", &format!("exact-grid:{}", case), format!("{}.right_mul_is_exact({}) = {} but by enumeration of gaps it is {}", r.txt(), s.txt(), e, w), "ranges", &case, seed);
                            }
                        }
                        if let Ok(x) = guard(|| lr.mul(&ls)) {
                            let x = of(&x);
                            let zero = r == Rg(0, Some(0)) || s == Rg(0, Some(0));
                            let lo = if zero { 0 } else { r.0 as u64 * s.0 as u64 };
                            let hi = if zero { Some(0) } else { match (r.1, s.1) { (Some(p1), Some(q1)) => Some(p1 as u64 * q1 as u64), _ => None } };
                            if x.0 as u64 != lo || x.1.map(|v| v as u64) != hi {
                                rep.violation("overflow", &format!("overflow:mul:{}", case), format!("{}.mul({}) = {} (wrong or silently wrapped)", r.txt(), s.txt(), x.txt()), "ranges", &case, seed);
                            }
                        }
                        if let Ok(x) = guard(|| lr.add(&ls)) {
                            let x = of(&x);
                            let lo = r.0 as u64 + s.0 as u64;
                            let hi = match (r.1, s.1) { (Some(p1), Some(q1)) => Some(p1 as u64 + q1 as u64), _ => None };
                            if x.0 as u64 != lo || x.1.map(|v| v as u64) != hi {
                                rep.violation("overflow", &format!("overflow:add:{}", case), format!("{}.add({}) = {} (wrong or silently wrapped)", r.txt(), s.txt(), x.txt()), "ranges", &case, seed);
                            }
                        }
                        let inc = r.0 <= s.0 && match (r.1, s.1) { (None, _) => true, (Some(_), None) => false, (Some(x), Some(y)) => y <= x };
                        if lr.includes(&ls) != inc {
                            rep.violation("includes", &format!("includes:{}", case), format!("{}.includes({}) = {}", r.txt(), s.txt(), lr.includes(&ls)), "ranges", &case, seed);
                        }
                        rep.eval(Some(&format!("g{}", case)));
                    }
                }
            }
        }
    }
    if p.thorough {
        // random mid-size ranges beyond the exhaustive box
        for _ in 0..3000 {
            let a = rng.below(30) as u32;
            let r = Rg(a, if rng.chance(1, 4) { None } else { Some(a + rng.below(30) as u32) });
            let c = rng.below(12) as u32;
            let s = Rg(c, if rng.chance(1, 4) { None } else { Some(c + rng.below(6) as u32) });
            // exactness by closed enumeration of gaps, mul by products on a sample
            let (lr, ls) = (r.mk(), s.mk());
            if let (Ok(e), Some(w)) = (guard(|| lr.right_mul_is_exact(&ls)), exact_by_definition(r, s)) {
                if e != w {
                    let case = format!("{} {}", r.txt(), s.txt());
                    rep.violation("exact", &format!("exact-mid:{}", case), format!("{}.right_mul_is_exact({}) = {} but by enumeration of gaps it is {}", r.txt(), s.txt(), e, w), "ranges", &case, seed);
                }
            }
            rep.eval(Some(&format!("m{} {}", r.txt(), s.txt())));
        }
    }
}

pub fn replay(kind: &str, text: &str, seed: u64, rep: &mut Report) -> bool {
    if kind != "ranges" {
        return false;
    }
    let parse = |t: &str| -> Option<Rg> {
        let t = t.trim_start_matches('[');
        let inf = t.ends_with("inf)");
        let t = t.trim_end_matches(']').trim_end_matches(')');
        let mut it = t.split(',');
        let a: u32 = it.next()?.parse().ok()?;
        if inf {
            Some(Rg(a, None))
        } else {
            Some(Rg(a, Some(it.next()?.parse().ok()?)))
        }
    };
    let parts: Vec<Rg> = text.split_whitespace().filter_map(parse).collect();
    match parts.len() {
        1 => check_single(rep, parts[0], seed),
        2 => {
            check_pair(rep, parts[0], parts[1], seed);
            let mut rng = Rng::new(seed);
            check_large(rep, &mut rng, seed);
        }
        _ => return false,
    }
    true
}
