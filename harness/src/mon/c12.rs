//! C12 — merge_partitions returns the coarsest common refinement (see DESIGN.md 9.1 for the reading).

use crate::gen::parts::*;
use crate::util::*;
use aws_smt_strings::character_sets::*;

use super::c11::same_partition as same;

fn build(p: &Ivs) -> CharPartition {
    let mut cp = CharPartition::new();
    for &(a, b) in p {
        cp.push(a, b);
    }
    cp
}

fn ivs_of(cp: &CharPartition) -> Ivs {
    cp.ranges().map(|s| (s.pick(), s.pick() + (s.size() - 1))).collect()
}

/// the coarsest common refinement by definition, as maximal runs of the joint class (c1, c2) over the
/// characters not in both complements, computed by a sweep over all break points
fn refinement(ps: &[&Ivs]) -> Ivs {
    // elementary segments between consecutive cut points
    let mut cuts: Vec<u32> = vec![0];
    for p in ps {
        for &(a, b) in p.iter() {
            cuts.push(a);
            if b < MAXC {
                cuts.push(b + 1);
            }
        }
    }
    cuts.sort_unstable();
    cuts.dedup();
    let mut out: Ivs = Vec::new();
    let mut prev_key: Option<Vec<Option<usize>>> = None;
    for (i, &lo) in cuts.iter().enumerate() {
        let hi = if i + 1 < cuts.len() { cuts[i + 1] - 1 } else { MAXC };
        let key: Vec<Option<usize>> = ps.iter().map(|p| class_of(p, lo)).collect();
        let in_all_complements = key.iter().all(|k| k.is_none());
        if in_all_complements {
            prev_key = None;
            continue;
        }
        if prev_key.as_ref() == Some(&key) {
            // same joint class and contiguous: extend the run
            let l = out.len() - 1;
            out[l].1 = hi;
        } else {
            out.push((lo, hi));
        }
        prev_key = Some(key);
    }
    out
}

pub fn check_merge(rep: &mut Report, ps: &[Ivs], seed: u64) -> bool {
    let case = ps.iter().map(show).collect::<Vec<_>>().join(" ; ");
    let cps: Vec<CharPartition> = ps.iter().map(build).collect();
    macro_rules! bad {
        ($rule:expr, $($arg:tt)*) => {{
            rep.violation($rule, $rule, format!($($arg)*), "merge", &case, seed);
            return false;
        }};
    }
    rep.inc("merges_checked");
    let merged = if ps.len() == 2 {
        match guard(|| merge_partitions(&cps[0], &cps[1])) {
            Ok(m) => m,
            Err(m) => bad!("merge-panic", "merge_partitions panicked on {}: {}", case, m),
        }
    } else {
        match guard(|| merge_partition_list(cps.iter())) {
            Ok(m) => m,
            Err(m) => bad!("merge-panic", "merge_partition_list panicked on {}: {}", case, m),
        }
    };
    let got = ivs_of(&merged);
    // well-formed: sorted, disjoint
    for i in 0..got.len() {
        if got[i].0 > got[i].1 || (i > 0 && got[i - 1].1 >= got[i].0) {
            bad!("merge-shape", "merge of {} is not sorted/disjoint: {}", case, show(&got));
        }
    }
    let refs: Vec<&Ivs> = ps.iter().collect();
    // (i) soundness on all break points: two probes in one result class are in one class of every input
    let mut all: Vec<&Ivs> = refs.clone();
    all.push(&got);
    let bps = break_points(&all);
    let mut by_class: std::collections::HashMap<Option<usize>, Vec<Option<usize>>> = std::collections::HashMap::new();
    for &x in &bps {
        rep.inc("soundness_probes");
        let rc = class_of(&got, x);
        let key: Vec<Option<usize>> = ps.iter().map(|p| class_of(p, x)).collect();
        match by_class.get(&rc) {
            None => {
                by_class.insert(rc, key);
            }
            Some(k) => {
                if *k != key {
                    bad!("merge-soundness", "merge of {} = {} puts character {:x} into class {:?} together with a character that the inputs separate (input classes {:?} vs {:?})", case, show(&got), x, rc, key, k);
                }
            }
        }
        // class_of_char of the merged object agrees with its own intervals
        let want = match rc {
            Some(i) => ClassId::Interval(i),
            None => ClassId::Complement,
        };
        if merged.class_of_char(x) != want {
            bad!("merge-shape", "merged partition of {}: class_of_char({:x}) disagrees with its ranges", case, x);
        }
    }
    // (ii) maximality and (iii) complement: exactly the maximal runs, complement = intersection of complements
    let want = refinement(&refs);
    if got != want {
        bad!("merge-exact", "merge of {} = {} but the coarsest common refinement is {}", case, show(&got), show(&want));
    }
    let wit = witness(&want);
    if merged.empty_complement() != (wit > MAXC) || (wit <= MAXC && (merged.pick_complement() > MAXC || class_of(&want, merged.pick_complement()).is_some())) {
        bad!("merge-witness", "merge of {}: complement witness {:x} (empty={}) is not a character outside all intervals (the least such character is {:x})", case, merged.pick_complement(), merged.empty_complement(), wit);
    }
    true
}

pub fn check_case(rep: &mut Report, ps: &[Ivs], seed: u64) {
    if !check_merge(rep, ps, seed) {
        return;
    }
    let case = ps.iter().map(show).collect::<Vec<_>>().join(" ; ");
    let cps: Vec<CharPartition> = ps.iter().map(build).collect();
    if ps.len() == 2 {
        // commutativity, neutral element, idempotence
        let m1 = merge_partitions(&cps[0], &cps[1]);
        let m2 = merge_partitions(&cps[1], &cps[0]);
        if !same(&m1, &m2) {
            rep.violation("merge-commutative", "merge-commutative", format!("merge is not commutative on {}", case), "merge", &case, seed);
        }
        let e = CharPartition::new();
        if !same(&merge_partitions(&cps[0], &e), &cps[0]) || !same(&merge_partitions(&e, &cps[0]), &cps[0]) {
            rep.violation("merge-neutral", "merge-neutral", format!("merge with the empty partition changes {}", show(&ps[0])), "merge", &case, seed);
        }
        if !same(&merge_partitions(&cps[0], &cps[0]), &cps[0]) {
            rep.violation("merge-idempotent", "merge-idempotent", format!("merge(p,p) != p for {}", show(&ps[0])), "merge", &case, seed);
        }
        rep.count("algebraic_law_probes", 4);
    }
    {
        // order independence of merge_partition_list: all rotations and a reversal
        let base = merge_partition_list(cps.iter());
        let n = cps.len();
        rep.hist("list_length", &format!("{}", n));
        for r in 0..n.min(6) {
            let order: Vec<&CharPartition> = (0..n).map(|i| &cps[(i + r) % n]).collect();
            let rev: Vec<&CharPartition> = order.iter().rev().copied().collect();
            for o in [order, rev] {
                rep.inc("order_independence_probes");
                if !same(&merge_partition_list(o.into_iter()), &base) {
                    rep.violation("merge-order", "merge-order", format!("merge_partition_list depends on the order for {}", case), "merge", &case, seed);
                    return;
                }
            }
        }
        // the same list through iterators whose size_hint is not exact
        let f1 = merge_partition_list(cps.iter().filter(|_| true));
        let grouped: Vec<Vec<&CharPartition>> = cps.chunks(2).map(|c| c.iter().collect()).collect();
        let f2 = merge_partition_list(grouped.iter().flat_map(|g| g.iter().copied()));
        let e0 = CharPartition::new();
        let mut padded: Vec<&CharPartition> = vec![&e0];
        padded.extend(cps.iter());
        padded.push(&e0);
        let f3 = merge_partition_list(padded.into_iter().filter(|q| !q.is_empty()));
        rep.count("inexact_size_hint_probes", 3);
        let nonempty_base = merge_partition_list(cps.iter().filter(|q| !q.is_empty()));
        if !same(&f1, &base) || !same(&f2, &base) || !same(&f3, &nonempty_base) || !same(&nonempty_base, &base) {
            rep.violation("merge-order", "merge-iterator-kind", format!("merge_partition_list gives a different result through filter/flat_map iterators for {}", case), "merge", &case, seed);
            return;
        }
        // empty list and neutral element inside the list
        if !same(&merge_partition_list(std::iter::empty()), &CharPartition::new()) {
            rep.violation("merge-neutral", "merge-neutral-list", "merge_partition_list of nothing is not the empty partition".to_string(), "merge", &case, seed);
        }
        let e = CharPartition::new();
        let mut with_e: Vec<&CharPartition> = cps.iter().collect();
        with_e.insert(1, &e);
        if !same(&merge_partition_list(with_e.into_iter()), &base) {
            rep.violation("merge-neutral", "merge-neutral-list", format!("adding the empty partition to the list changes the merge of {}", case), "merge", &case, seed);
        }
    }
}

/// second partition derived from the first: nested, interleaved, adjacent or shifted intervals
fn related(rng: &mut Rng, p: &Ivs) -> Ivs {
    let mut out: Ivs = Vec::new();
    for &(a, b) in p {
        let cand = match rng.below(8) {
            0 => Some((a, b)),                                                        // identical
            1 => Some((a + rng.below((b - a + 1) as u64) as u32, b)),                 // suffix
            2 => Some((a, a + rng.below((b - a + 1) as u64) as u32)),                 // prefix
            3 => {
                let x = a + rng.below((b - a + 1) as u64) as u32;                     // strictly inside
                Some((x, x + rng.below((b - x + 1) as u64) as u32))
            }
            4 => Some((a.saturating_sub(rng.below(3) as u32), (b + rng.below(3) as u32).min(MAXC))), // around
            5 => {
                if b < MAXC {
                    Some((b + 1, (b + 1 + rng.below(4) as u32).min(MAXC)))            // adjacent after
                } else {
                    None
                }
            }
            6 => Some((a.saturating_sub(2), a + (b - a) / 2)),                        // straddles the start
            _ => None,
        };
        if let Some((x, y)) = cand {
            if x <= y && out.last().map_or(true, |l: &(u32, u32)| l.1 < x) {
                out.push((x, y));
            }
        }
    }
    out
}

pub fn run(p: &Params, rep: &mut Report) {
    if p.shard == 3 {
        super::ladder::discrete_partitions(rep, "C12", p.seed);
    }
    if p.shard % 4 == 1 {
        // a large regular partition (500-1100 intervals) merged with ONE interval at every alignment relative to the
        // intervals and gaps around it (ends exactly on a start, starts exactly on an end, inside a gap, spanning
        // several), in both argument orders
        let k = [512usize, 513, 600, 520][(p.shard as usize / 4) % 4];
        let big: Ivs = (0..k as u32).map(|i| (10 * i, 10 * i + 4)).collect();
        let mid = 10 * (k as u32 / 2);
        let mut cases = 0u64;
        for a in [mid - 1, mid, mid + 4, mid + 5, mid + 6] {
            for len in [0u32, 4, 5, 6, 10] {
                let single: Ivs = vec![(a, a + len)];
                for ps in [vec![big.clone(), single.clone()], vec![single.clone(), big.clone()]] {
                    cases += 1;
                    if !check_merge(rep, &ps, p.seed) {
                        break;
                    }
                }
            }
        }
        // and at both ends of the large partition
        for single in [vec![(0u32, 0u32)], vec![(4, 10)], vec![(10 * k as u32 - 6, 10 * k as u32)], vec![(10 * k as u32 - 5, MAXC)], vec![(0, MAXC)]] {
            cases += 2;
            check_merge(rep, &[big.clone(), single.clone()], p.seed);
            check_merge(rep, &[single, big.clone()], p.seed);
        }
        rep.count("large_partition_with_single_interval_merges", cases);
        rep.eval(Some(&format!("large{}", k)));
    }
    let mut rng = p.rng(12);
    let n = p.size(30_000, 400_000);
    for i in 0..n {
        let a = gen_intervals(&mut rng, 6);
        let b = if rng.chance(1, 2) { related(&mut rng, &a) } else { gen_intervals(&mut rng, 6) };
        let ps: Vec<Ivs> = if i % 4 == 3 {
            // lists of 3 to 4, and every eighth case a long list (up to 18 partitions)
            // ... and every 64th case a list of 31-100 small partitions, one of which reaches the last character
            let k = if i % 64 == 63 { 29 + rng.usize(70) } else if i % 32 == 31 { 3 + rng.usize(14) } else { 1 + rng.usize(2) };
            let mut v = vec![a.clone(), b];
            for _ in 0..k {
                let c = if k > 20 { gen_intervals(&mut rng, 2) } else if rng.chance(1, 2) { related(&mut rng, &a) } else { gen_intervals(&mut rng, 4) };
                v.push(c);
            }
            if k > 20 {
                let lo = MAXC - rng.below(0x200) as u32;
                let at = rng.usize(v.len());
                v.insert(at, vec![(lo, MAXC)]);
                if rng.chance(1, 2) {
                    v.push(vec![(0, rng.below(0x80) as u32)]);
                }
            }
            v
        } else {
            vec![a, b]
        };
        let seed = rng.next();
        let key = ps.iter().map(show).collect::<Vec<_>>().join(" ; ");
        let nontrivial = ps.iter().filter(|x| !x.is_empty()).count() >= 2;
        rep.eval(if nontrivial { Some(&key) } else { None });
        rep.hist("partitions_in_case", &format!("{}", ps.len()));
        rep.sample(|| key.clone());
        if let Err(m) = guard(|| check_case(rep, &ps, seed)) {
            if panic_in_harness(&m) {
                rep.harness_error(m);
            } else {
                rep.violation("panic", "panic-unguarded", format!("crate panicked: {}", m), "merge", &key, seed);
            }
        }
    }
    // observed through its clients: derivative classes of unions and the combined alphabet of automata
    // (covered by the workloads of C03 and C14; here only the direct function)
}

pub fn replay(kind: &str, text: &str, seed: u64, rep: &mut Report) -> bool {
    if kind != "merge" {
        return false;
    }
    let ps: Vec<Ivs> = text.split(';').map(parse).collect();
    check_case(rep, &ps, seed);
    true
}
