//! C09 — lexicographic order and int/code conversions, in every build profile.

use crate::oracle::smt as o;
use crate::util::*;
use aws_smt_strings::smt_strings::*;

fn s(w: &[u32]) -> SmtString {
    SmtString::from(w)
}
fn v(x: &SmtString) -> Vec<u32> {
    x.iter().copied().collect()
}
fn case_of(w: &[u32]) -> String {
    w.iter().map(|c| format!("{:x}", c)).collect::<Vec<_>>().join(" ")
}

pub fn check_to_int(rep: &mut Report, w: &[u32], seed: u64) {
    rep.inc("to_int_probes");
    let want = o::to_int(w);
    let got = guard(|| str_to_int(&s(w)));
    let digits: String = w.iter().map(|&c| char::from_u32(c).unwrap_or('?')).collect();
    match (want, got) {
        (None, Ok(-1)) => {}
        (None, other) => rep.violation("to-int", "to-int:non-numeral", format!("str_to_int({}) = {:?}, expected -1", show_str(w), other), "to_int", &case_of(w), seed),
        (Some(x), Ok(g)) => {
            if x > i32::MAX as u128 {
                rep.inc("to_int_overflow_cases");
                rep.violation("to-int", "to-int:wraps-instead-of-panicking", format!("str_to_int(\"{}\") = {} but the value does not fit in i32: the documented behaviour is to panic", short(&digits, 40), g), "to_int", &case_of(w), seed);
            } else if g as i64 != x as i64 {
                rep.violation("to-int", "to-int:wrong-value", format!("str_to_int(\"{}\") = {}, expected {}", short(&digits, 40), g, x), "to_int", &case_of(w), seed);
            }
        }
        (Some(x), Err(msg)) => {
            if x > i32::MAX as u128 {
                rep.inc("to_int_overflow_cases");
                rep.inc("to_int_overflow_cases_that_panicked");
            } else {
                rep.violation("to-int", "to-int:panic-on-representable", format!("str_to_int(\"{}\") panicked ({}) although {} fits", short(&digits, 40), msg, x), "to_int", &case_of(w), seed);
            }
        }
    }
}

fn check_order(rep: &mut Report, a: &[u32], b: &[u32], seed: u64) {
    rep.inc("order_probes");
    let (sa, sb) = (s(a), s(b));
    // read-only observers called on ONE of the two strings first (every other pair): they must not change how the
    // string compares afterwards
    if (a.len() + b.len()) % 2 == 0 {
        let _ = (sa.is_unicode(), sa.is_good(), sa.len(), sa.is_empty(), sa.to_string(), sa.iter().count());
        if sa.is_unicode() {
            let _ = sa.to_unicode_string();
        }
        rep.inc("order_probes_after_observer_calls");
    }
    // the order is consistent with equality: exactly one of a < b, a == b, b < a
    let (eq, gt) = (sa == sb, str_lt(&sb, &sa));
    if eq != (a == b) || [str_lt(&sa, &sb), eq, gt].iter().filter(|&&x| x).count() != 1 || (str_le(&sa, &sb) && str_le(&sb, &sa)) != eq {
        rep.violation("order", "order:equality", format!("{} and {}: == is {}, str_lt = {}, reverse str_lt = {}, str_le both ways = {}; the order is not consistent with equality", show_str(a), show_str(b), eq, str_lt(&sa, &sb), gt, str_le(&sa, &sb) && str_le(&sb, &sa)), "order", &format!("{} ; {}", case_of(a), case_of(b)), seed);
    }
    let (lt, le) = (str_lt(&sa, &sb), str_le(&sa, &sb));
    if lt != o::lt(a, b) || le != o::le(a, b) {
        rep.violation("order", "order:wrong", format!("str_lt({}, {}) = {}, str_le = {}; lexicographic order says {} / {}", show_str(a), show_str(b), lt, le, o::lt(a, b), o::le(a, b)), "order", &format!("{} ; {}", case_of(a), case_of(b)), seed);
    }
}

pub fn run(p: &Params, rep: &mut Report) {
    let seed = p.seed;
    let mut rng = p.rng(9);
    // ---- order: exhaustive over strings of length <= 3 over 4 code points, sharded by pair index
    let alpha = [0u32, 0x61, 0x62, 0x2FFFF];
    let mut words: Vec<Vec<u32>> = vec![vec![]];
    let mut fr: Vec<Vec<u32>> = vec![vec![]];
    for _ in 0..3 {
        let mut nx = Vec::new();
        for w in &fr {
            for &c in &alpha {
                let mut x = w.clone();
                x.push(c);
                nx.push(x);
            }
        }
        words.extend(nx.iter().cloned());
        fr = nx;
    }
    let mut idx = 0u64;
    for a in &words {
        for b in &words {
            idx += 1;
            if idx % p.nshards == p.shard {
                check_order(rep, a, b, seed);
                rep.eval(Some(&format!("o{}|{}", show_str(a), show_str(b))));
            }
        }
    }
    // order axioms on random triples of longer strings
    let nt = p.size(20_000, 400_000);
    let big = [0u32, 1, 0x61, 0x62, 0x10000, 0x2FFFF];
    for _ in 0..nt {
        let mk = |rng: &mut Rng| -> Vec<u32> { (0..rng.usize(7)).map(|_| *rng.pick(&big)).collect() };
        let a = mk(&mut rng);
        let mut b = mk(&mut rng);
        if rng.chance(1, 3) {
            b = a.clone();
            if rng.chance(1, 2) {
                b.push(*rng.pick(&big));
            }
        }
        let c = mk(&mut rng);
        check_order(rep, &a, &b, seed);
        check_order(rep, &b, &c, seed);
        check_order(rep, &a, &c, seed);
        if rep.xchecks.len() < 20 {
            use crate::oracle::smtlib::lit;
            rep.xcheck(|| format!("(= (str.< {} {}) {})", lit(&a), lit(&b), str_lt(&s(&a), &s(&b))));
            rep.xcheck(|| format!("(= (str.<= {} {}) {})", lit(&a), lit(&b), str_le(&s(&a), &s(&b))));
        }
        rep.eval(Some(&format!("t{}|{}|{}", show_str(&a), show_str(&b), show_str(&c))));
        rep.sample(|| format!("order triple {} {} {}", show_str(&a), show_str(&b), show_str(&c)));
    }

    // long strings: every common-prefix length 0..=70 x every kind of tail (shorter, longer, smaller, greater)
    if p.shard < 8 {
        let fill = [0x61u32, 0x62, 0, 0x2FFFF, 0x61, 0x61, 0x62, 0x61][p.shard as usize];
        for plen in 0..=70usize {
            let prefix: Vec<u32> = (0..plen).map(|i| if i % 7 == 3 { 0x62 } else { fill }).collect();
            let tails: [&[u32]; 6] = [&[], &[0x61], &[0x62], &[0x61, 0x61], &[0x62, 0], &[0x2FFFF]];
            for ta in tails {
                for tb in tails {
                    let mut a = prefix.clone();
                    a.extend_from_slice(ta);
                    let mut b = prefix.clone();
                    b.extend_from_slice(tb);
                    check_order(rep, &a, &b, seed);
                    rep.eval(Some(&format!("lp{}|{:?}|{:?}|{}", plen, ta, tb, fill)));
                }
            }
        }
        rep.inc("long_common_prefix_sweeps");
    }

    // ---- str_to_int
    // numerals with 0..=40 leading zeros (the value stays small, the string gets long)
    if p.shard == 1 {
        for zeros in 0..=40usize {
            for val in ["0", "1", "9", "10", "2147483647", "2147483648", "4294967296", "99999"] {
                let mut w: Vec<u32> = vec![0x30; zeros];
                w.extend(val.chars().map(|c| c as u32));
                check_to_int(rep, &w, seed);
                rep.eval(Some(&format!("z{}|{}", zeros, val)));
            }
        }
    }
    // all digit strings of length <= 5 (with leading zeros), sharded
    for len in 1..=5u32 {
        let count = 10u64.pow(len);
        let mut i = p.shard;
        while i < count {
            let w: Vec<u32> = format!("{:0width$}", i, width = len as usize).chars().map(|c| c as u32).collect();
            check_to_int(rep, &w, seed);
            rep.evals(1);
            i += p.nshards;
        }
    }
    // values around the interesting boundaries
    if p.shard == 0 {
        for base in [1u128 << 31, 1u128 << 32, 10_000_000_000u128, 1u128 << 33, 1u128 << 63, 1u128 << 64, 3 * (1u128 << 31), 5 * (1u128 << 30)] {
            for d in -20i128..=20 {
                let x = (base as i128 + d) as u128;
                let w: Vec<u32> = x.to_string().chars().map(|c| c as u32).collect();
                check_to_int(rep, &w, seed);
                rep.eval(Some(&format!("b{}", x)));
                // with leading zeros
                let mut w2 = vec![0x30, 0x30];
                w2.extend_from_slice(&w);
                check_to_int(rep, &w2, seed);
            }
        }
    }
    let nr = p.size(20_000, 400_000);
    for _ in 0..nr {
        let len = 1 + rng.usize(20);
        let mut w: Vec<u32> = (0..len).map(|_| 0x30 + rng.below(10) as u32).collect();
        if rng.chance(1, 5) {
            // one non-digit at a random position
            let pos = rng.usize(len);
            w[pos] = *rng.pick(&[0x2F, 0x3A, 0x61, 0x2D, 0x2B, 0x20, 0x660, 0xFF10, 0x2FFFF]);
        }
        check_to_int(rep, &w, seed);
        if w.len() <= 9 && rep.xchecks.len() < 50 {
            use crate::oracle::smtlib::{int, lit};
            let got = str_to_int(&s(&w));
            rep.xcheck(|| format!("(= (str.to_int {}) {})", lit(&w), int(got as i64)));
            let x = (got as i64) - 3;
            rep.xcheck(|| format!("(= (str.from_int {}) {})", int(x), lit(&v(&str_from_int(x as i32)))));
            let code = (w[0] as i64) * 1000 - 40000;
            rep.xcheck(|| format!("(= (str.from_code {}) {})", int(code), lit(&v(&str_from_code(code as i32)))));
            rep.xcheck(|| format!("(= (str.to_code {}) {})", lit(&w[..1]), int(str_to_code(&s(&w[..1])) as i64)));
            rep.xcheck(|| format!("(= (str.is_digit {}) {})", lit(&w[..1]), str_is_digit(&s(&w[..1]))));
        }
        rep.eval(Some(&format!("r{}", show_str(&w))));
        rep.sample(|| format!("to_int {}", show_str(&w)));
    }
    check_to_int(rep, &[], seed);

    // ---- from_code / to_code over [-3, 0x30003], is_digit
    let mut x: i64 = -3 + p.shard as i64;
    while x <= 0x30003 {
        rep.inc("code_probes");
        let got = guard(|| str_from_code(x as i32));
        match got {
            Ok(g) => {
                if v(&g) != o::from_code(x) {
                    rep.violation("code", "code:from_code", format!("str_from_code({}) = {}, expected {}", x, show_str(&v(&g)), show_str(&o::from_code(x))), "code", &format!("{}", x), seed);
                } else if (0..=0x2FFFF).contains(&x) {
                    let back = str_to_code(&g);
                    if back as i64 != x {
                        rep.violation("code", "code:roundtrip", format!("str_to_code(str_from_code({})) = {}", x, back), "code", &format!("{}", x), seed);
                    }
                    if str_is_digit(&g) != o::is_digit(&v(&g)) {
                        rep.violation("code", "code:is_digit", format!("str_is_digit of code {} = {}", x, str_is_digit(&g)), "code", &format!("{}", x), seed);
                    }
                }
            }
            Err(msg) => rep.violation("code", "code:panic", format!("str_from_code({}) panicked: {}", x, msg), "code", &format!("{}", x), seed),
        }
        rep.evals(1);
        x += p.nshards as i64;
    }
    for xx in [i32::MIN, i32::MIN + 1, -1, i32::MAX, i32::MAX - 1, 0x30000, 0x110000] {
        let g = str_from_code(xx);
        if v(&g) != o::from_code(xx as i64) {
            rep.violation("code", "code:from_code", format!("str_from_code({}) = {}", xx, show_str(&v(&g))), "code", &format!("{}", xx), seed);
        }
    }
    for w in [vec![], vec![0x30, 0x31], vec![0x39], vec![0x3A], vec![0x2F], vec![0x660]] {
        if str_to_code(&s(&w)) as i64 != o::to_code(&w) || str_is_digit(&s(&w)) != o::is_digit(&w) {
            rep.violation("code", "code:to_code", format!("str_to_code/str_is_digit wrong on {}", show_str(&w)), "code", "0", seed);
        }
    }

    // ---- from_int / to_int round trip
    let mut ints: Vec<i32> = vec![i32::MIN, i32::MIN + 1, -1000, -1, 0, 1, 9, 10, 99, 100, i32::MAX - 1, i32::MAX];
    let ni = p.size(50_000, 1_000_000);
    for _ in 0..ni {
        ints.push(match rng.below(4) {
            0 => rng.below(1000) as i32,
            1 => -(rng.below(1 << 31) as i32),
            _ => rng.below(1u64 << 31) as i32,
        });
    }
    for n in ints {
        rep.inc("from_int_probes");
        let g = str_from_int(n);
        if v(&g) != o::from_int(n as i64) {
            rep.violation("int", "int:from_int", format!("str_from_int({}) = {}", n, show_str(&v(&g))), "int", &format!("{}", n), seed);
        } else if n >= 0 {
            match guard(|| str_to_int(&g)) {
                Ok(b) if b == n => {}
                other => rep.violation("int", "int:roundtrip", format!("str_to_int(str_from_int({})) = {:?}", n, other), "int", &format!("{}", n), seed),
            }
        }
        rep.evals(1);
    }
    rep.distinct_key(&format!("profile-{}", p.profile));
}

pub fn replay(kind: &str, text: &str, seed: u64, rep: &mut Report) -> bool {
    match kind {
        "to_int" => {
            let w: Vec<u32> = text.split_whitespace().filter_map(|t| u32::from_str_radix(t, 16).ok()).collect();
            check_to_int(rep, &w, seed);
            true
        }
        "order" => {
            let mut it = text.split(';');
            let a: Vec<u32> = it.next().unwrap_or("").split_whitespace().filter_map(|t| u32::from_str_radix(t, 16).ok()).collect();
            let b: Vec<u32> = it.next().unwrap_or("").split_whitespace().filter_map(|t| u32::from_str_radix(t, 16).ok()).collect();
            check_order(rep, &a, &b, seed);
            true
        }
        "code" | "int" => {
            // cheap: re-run the whole deterministic sweep of shard 0
            let p = Params { prop: "C09".into(), seed, shard: 0, nshards: 1, thorough: false, profile: String::new(), scale: 10 };
            run(&p, rep);
            true
        }
        _ => false,
    }
}
