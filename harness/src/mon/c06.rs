//! C06 — string search / substring / replace functions follow SMT-LIB 2.6.

use crate::oracle::smt as o;
use crate::util::*;
use aws_smt_strings::smt_strings::*;

const INTS: [i32; 14] = [i32::MIN, i32::MIN + 1, -2, -1, 0, 1, 2, 3, 4, 5, 6, 7, i32::MAX - 1, i32::MAX];

fn s(w: &[u32]) -> SmtString {
    SmtString::from(w)
}
fn v(x: &SmtString) -> Vec<u32> {
    x.iter().copied().collect()
}

struct Ck<'a> {
    rep: &'a mut Report,
    seed: u64,
}

impl<'a> Ck<'a> {
    fn fail(&mut self, f: &str, case: String, got: String, want: String) {
        self.rep.violation(f, &format!("{}:{}", f, sig_class(&case)), format!("{}({}) = {} but SMT-LIB 2.6 defines {}", f, case, got, want), "strfn", &format!("{} {}", f, case), self.seed);
    }
}

/// a coarse signature: which boundary class the arguments are in (used only to tell findings apart)
fn sig_class(case: &str) -> String {
    short(case, 60)
}

fn fmt_w(w: &[u32]) -> String {
    show_str(w)
}

/// check every function on one tuple (a, b, c, i, n)
fn check_tuple(ck: &mut Ck, a: &[u32], b: &[u32], c: &[u32], i: i32, n: i32) {
    let (sa, sb, sc) = (s(a), s(b), s(c));
    macro_rules! chk {
        ($name:expr, $case:expr, $got:expr, $want:expr) => {{
            ck.rep.inc("function_evaluations");
            match guard(|| $got) {
                Ok(g) => {
                    let w = $want;
                    if g != w {
                        ck.fail($name, $case, format!("{:?}", g), format!("{:?}", w));
                    }
                }
                Err(msg) => ck.fail($name, $case, format!("panic: {}", msg), "a value".to_string()),
            }
        }};
    }
    chk!("str_concat", format!("{} {}", fmt_w(a), fmt_w(b)), v(&str_concat(&sa, &sb)), o::concat(a, b));
    chk!("str_len", fmt_w(a), str_len(&sa) as i64, a.len() as i64);
    chk!("str_at", format!("{} {}", fmt_w(a), i), v(&str_at(&sa, i)), o::at(a, i as i64));
    chk!("str_substr", format!("{} {} {}", fmt_w(a), i, n), v(&str_substr(&sa, i, n)), o::substr(a, i as i64, n as i64));
    chk!("str_prefixof", format!("{} {}", fmt_w(b), fmt_w(a)), str_prefixof(&sb, &sa), o::prefixof(b, a));
    chk!("str_suffixof", format!("{} {}", fmt_w(b), fmt_w(a)), str_suffixof(&sb, &sa), o::suffixof(b, a));
    chk!("str_contains", format!("{} {}", fmt_w(a), fmt_w(b)), str_contains(&sa, &sb), o::contains(a, b));
    chk!("str_indexof", format!("{} {} {}", fmt_w(a), fmt_w(b), i), str_indexof(&sa, &sb, i) as i64, o::indexof(a, b, i as i64));
    chk!("str_replace", format!("{} {} {}", fmt_w(a), fmt_w(b), fmt_w(c)), v(&str_replace(&sa, &sb, &sc)), o::replace(a, b, c));
    chk!("str_replace_all", format!("{} {} {}", fmt_w(a), fmt_w(b), fmt_w(c)), v(&str_replace_all(&sa, &sb, &sc)), o::replace_all(a, b, c));
    // argument aliasing: the SAME object passed in two (three) positions must behave like equal values
    if a.len() <= 6 || a.len() % 5 == 0 {
        ck.rep.inc("aliased_argument_calls");
        chk!("str_replace", format!("{} {} {}", fmt_w(a), fmt_w(a), fmt_w(c)), v(&str_replace(&sa, &sa, &sc)), o::replace(a, a, c));
        chk!("str_replace_all", format!("{} {} {}", fmt_w(a), fmt_w(a), fmt_w(c)), v(&str_replace_all(&sa, &sa, &sc)), o::replace_all(a, a, c));
        chk!("str_replace_all", format!("{} {} {}", fmt_w(a), fmt_w(a), fmt_w(a)), v(&str_replace_all(&sa, &sa, &sa)), o::replace_all(a, a, a));
        chk!("str_replace", format!("{} {} {}", fmt_w(a), fmt_w(b), fmt_w(a)), v(&str_replace(&sa, &sb, &sa)), o::replace(a, b, a));
        chk!("str_replace_all", format!("{} {} {}", fmt_w(a), fmt_w(b), fmt_w(b)), v(&str_replace_all(&sa, &sb, &sb)), o::replace_all(a, b, b));
        chk!("str_contains", format!("{} {}", fmt_w(a), fmt_w(a)), str_contains(&sa, &sa), o::contains(a, a));
        chk!("str_indexof", format!("{} {} {}", fmt_w(a), fmt_w(a), i), str_indexof(&sa, &sa, i) as i64, o::indexof(a, a, i as i64));
        chk!("str_prefixof", format!("{} {}", fmt_w(a), fmt_w(a)), str_prefixof(&sa, &sa), o::prefixof(a, a));
        chk!("str_suffixof", format!("{} {}", fmt_w(a), fmt_w(a)), str_suffixof(&sa, &sa), o::suffixof(a, a));
        chk!("str_concat", format!("{} {}", fmt_w(a), fmt_w(a)), v(&str_concat(&sa, &sa)), o::concat(a, a));
    }
}

fn all_words(alpha: &[u32], maxlen: usize) -> Vec<Vec<u32>> {
    let mut out: Vec<Vec<u32>> = vec![vec![]];
    let mut frontier: Vec<Vec<u32>> = vec![vec![]];
    for _ in 0..maxlen {
        let mut next = Vec::new();
        for w in &frontier {
            for &c in alpha {
                let mut x = w.clone();
                x.push(c);
                next.push(x);
            }
        }
        out.extend(next.iter().cloned());
        frontier = next;
    }
    out
}

pub fn run(p: &Params, rep: &mut Report) {
    let seed = p.seed;
    let mut ck = Ck { rep, seed };
    // exhaustive part: all words up to length L over {a,b}; pairs x boundary integers; triples for replace
    let l = if p.thorough { 5 } else { 4 };
    let words = all_words(&[0x61, 0x62], l);
    let mut idx = 0u64;
    for a in &words {
        for b in &words {
            idx += 1;
            if idx % p.nshards != p.shard {
                continue;
            }
            // index/length arguments: every boundary integer for i, a few for n
            for &i in &INTS {
                for &n in &[i32::MIN, -1, 0, 1, 2, 3, i32::MAX] {
                    check_tuple(&mut ck, a, b, &[], i, n);
                    ck.rep.eval(None);
                }
            }
            let key = format!("{}|{}", fmt_w(a), fmt_w(b));
            ck.rep.distinct_key(&key);
            // replacement texts: empty, one char, text containing the pattern
            let mut r3 = b.clone();
            r3.extend_from_slice(b);
            r3.push(0x61);
            for c in [vec![], vec![0x63], r3] {
                check_tuple(&mut ck, a, b, &c, 0, 1);
                ck.rep.eval(None);
            }
        }
    }
    ck.rep.count("exhaustive_pairs", idx / p.nshards);
    // random part: longer strings over a 5-letter alphabet with planted occurrences and overlapping patterns
    let mut rng = p.rng(6);
    let nrand = p.size(60_000, 1_000_000);
    let alpha = [0x61u32, 0x62, 0x63, 0x2FFFF, 0, 0xD800, 0xFFFD];
    for _ in 0..nrand {
        let la = if rng.chance(1, 6) { *rng.pick(&[7usize, 8, 9, 15, 16, 17, 31, 32, 33, 63, 64, 65, 127, 128, 129]) } else { rng.usize(41) };
        let na = match rng.below(4) { 0 | 1 => 2, 2 => 5, _ => 7 };
        let mut a: Vec<u32> = (0..la).map(|_| *rng.pick(&alpha[..na])).collect();
        let lb = rng.usize(5);
        let b: Vec<u32> = if !a.is_empty() && rng.chance(1, 2) {
            let st = rng.usize(a.len());
            let en = (st + lb).min(a.len());
            a[st..en].to_vec()
        } else {
            (0..lb).map(|_| *rng.pick(&alpha[..2])).collect()
        };
        if rng.chance(1, 3) && !b.is_empty() {
            // plant overlapping occurrences
            let pos = rng.usize(a.len() + 1);
            let mut planted = b.clone();
            planted.extend_from_slice(&b);
            for (k, ch) in planted.iter().enumerate() {
                if pos + k < a.len() {
                    a[pos + k] = *ch;
                }
            }
        }
        let c: Vec<u32> = match rng.below(4) {
            0 => vec![],
            1 => vec![*rng.pick(&alpha)],
            2 => {
                let mut x = b.clone();
                x.extend_from_slice(&b);
                x
            }
            _ => (0..rng.usize(4)).map(|_| *rng.pick(&alpha)).collect(),
        };
        let i = match rng.below(6) {
            0 => *rng.pick(&INTS),
            1 => a.len() as i32,
            2 => a.len() as i32 + 1,
            3 => a.len() as i32 - 1,
            _ => rng.below(a.len() as u64 + 2) as i32,
        };
        let n = match rng.below(5) {
            0 => *rng.pick(&INTS),
            1 => i32::MAX - i.max(0),
            _ => rng.below(a.len() as u64 + 3) as i32,
        };
        check_tuple(&mut ck, &a, &b, &c, i, n);
        if a.len() <= 12 && ck.rep.xchecks.len() < 60 {
            use crate::oracle::smtlib::{int, lit};
            let (sa, sb, sc) = (s(&a), s(&b), s(&c));
            let (la, lb, lc) = (lit(&a), lit(&b), lit(&c));
            let k = ck.rep.xchecks.len() % 8;
            ck.rep.xcheck(|| match k {
                0 => format!("(= (str.indexof {} {} {}) {})", la, lb, int(i as i64), int(str_indexof(&sa, &sb, i) as i64)),
                1 => format!("(= (str.replace {} {} {}) {})", la, lb, lc, lit(&v(&str_replace(&sa, &sb, &sc)))),
                2 => format!("(= (str.replace_all {} {} {}) {})", la, lb, lc, lit(&v(&str_replace_all(&sa, &sb, &sc)))),
                3 => format!("(= (str.substr {} {} {}) {})", la, int(i as i64), int(n as i64), lit(&v(&str_substr(&sa, i, n)))),
                4 => format!("(= (str.at {} {}) {})", la, int(i as i64), lit(&v(&str_at(&sa, i)))),
                5 => format!("(= (str.contains {} {}) {})", la, lb, str_contains(&sa, &sb)),
                6 => format!("(= (str.prefixof {} {}) {})", lb, la, str_prefixof(&sb, &sa)),
                _ => format!("(= (str.suffixof {} {}) {})", lb, la, str_suffixof(&sb, &sa)),
            });
        }
        let key = format!("{}|{}|{}|{}|{}", fmt_w(&a), fmt_w(&b), fmt_w(&c), i, n);
        ck.rep.eval(Some(&key));
        ck.rep.sample(|| format!("a={} b={} c={} i={} n={}", fmt_w(&a), fmt_w(&b), fmt_w(&c), i, n));
    }
    ck.rep.count("random_tuples", nrand);
    // exactly k non-overlapping occurrences, k around powers of two; patterns of exactly 2^j (+-1) characters
    if p.shard < 6 {
        let fill_sets: [&[u32]; 3] = [&[], &[0x7a], &[0x7a, 0x79, 0x7a]];
        let pats: [&[u32]; 4] = [&[0x61], &[0x61, 0x62], &[0x61, 0x61], &[0x20AC, 0x61, 0x2FFFF]];
        for &k in &[1usize, 7, 8, 9, 15, 16, 17, 31, 32, 33, 63, 64, 65, 127, 128, 129] {
            for (fi, fill) in fill_sets.iter().enumerate() {
                for (pi, pat) in pats.iter().enumerate() {
                    if ((fi * 4 + pi) as u64) % 6 != p.shard {
                        continue;
                    }
                    let mut subj: Vec<u32> = Vec::new();
                    for _ in 0..k {
                        subj.extend_from_slice(pat);
                        subj.extend_from_slice(fill);
                    }
                    for repl in [&[][..], &[0x52][..], &[0x61, 0x61, 0x62][..]] {
                        check_tuple(&mut ck, &subj, pat, repl, (subj.len() / 2) as i32, k as i32);
                    }
                    ck.rep.eval(Some(&format!("occ{}|{}|{}", k, fi, pi)));
                    ck.rep.inc("exact_occurrence_count_tuples");
                }
            }
        }
        for &len in &[7usize, 8, 9, 15, 16, 17, 31, 32, 33, 63, 64, 65, 127, 128, 129, 255, 256, 257] {
            // a pattern of exactly `len` characters with period 2, searched in a subject that starts with a near miss
            let pat: Vec<u32> = (0..len).map(|i| if i % 2 == 0 { 0x61 } else { 0x62 }).collect();
            let mut subj: Vec<u32> = vec![0x62, 0x62, 0x62];
            subj.extend_from_slice(&pat);
            subj.push(0x62);
            subj.push(0x61);
            let short: Vec<u32> = vec![0x61];
            check_tuple(&mut ck, &subj, &pat, &[0x58], 0, len as i32);
            check_tuple(&mut ck, &short, &pat, &[0x58], 0, 1);
            check_tuple(&mut ck, &pat, &pat, &[], 0, len as i32);
            ck.rep.eval(Some(&format!("plen{}", len)));
            ck.rep.inc("exact_pattern_length_tuples");
        }
    }
    // long patterns with nested borders: p = u u u' x ... preceded in the subject by a partial occurrence of p
    let nb = p.size(300, 5000);
    for _ in 0..nb {
        let ul = 1 + rng.usize(4);
        let u: Vec<u32> = (0..ul).map(|_| *rng.pick(&[0x61u32, 0x62])).collect();
        let reps = 2 + rng.usize(4);
        let mut pat: Vec<u32> = Vec::new();
        for _ in 0..reps {
            pat.extend_from_slice(&u);
        }
        pat.extend_from_slice(&u[..rng.usize(ul + 1).min(ul)]);
        pat.push(*rng.pick(&[0x63u32, 0x61, 0x20AC, 0x2FFFF]));
        while pat.len() < 16 + rng.usize(12) {
            pat.push(*rng.pick(&[0x61u32, 0x62, 0x63, 0x20AC]));
        }
        // subject: noise, a proper prefix of the pattern (partial occurrence), then the pattern, then noise
        let mut subj: Vec<u32> = (0..rng.usize(6)).map(|_| *rng.pick(&[0x61u32, 0x62])).collect();
        let cut = 1 + rng.usize(pat.len() - 1);
        subj.extend_from_slice(&pat[..cut]);
        if rng.chance(3, 4) {
            subj.extend_from_slice(&pat);
        }
        subj.extend((0..rng.usize(5)).map(|_| *rng.pick(&[0x61u32, 0x62, 0x20AC])));
        let i = rng.usize(subj.len().min(8)) as i32;
        check_tuple(&mut ck, &subj, &pat, &[0x5A], i, pat.len() as i32);
        ck.rep.eval(Some(&format!("border{}|{}", fmt_w(&subj), fmt_w(&pat))));
        ck.rep.inc("bordered_pattern_tuples");
    }
    // neighbouring code points and their copies in the other planes (same low 16 bits): all subjects up to length 3
    // against all patterns of length 1-2 over {0x60, 0x61, 0x10060, 0x10061, 0x20061, 0x62}
    {
        let alpha = [0x60u32, 0x61, 0x10060, 0x10061, 0x20061, 0x62];
        let subj = all_words(&alpha, 3);
        let pats = all_words(&alpha, 2);
        let mut idx2 = 0u64;
        for a in &subj {
            for b in pats.iter().filter(|b| !b.is_empty()) {
                idx2 += 1;
                if idx2 % p.nshards != p.shard {
                    continue;
                }
                check_tuple(&mut ck, a, b, &[0x5a], 0, 2);
                ck.rep.inc("plane_copy_tuples");
            }
        }
        ck.rep.eval(Some("plane-copies"));
    }
    // Thue-Morse words (the classical worst case for polynomial fingerprints modulo 2^64): t_k against its letter-wise
    // complement, whole and as factors of a longer subject
    if p.shard % 4 == 0 {
        for order in [10u32, 11, 12] {
            let n = 1usize << order;
            let t: Vec<u32> = (0..n).map(|i| if (i as u32).count_ones() % 2 == 0 { 0x61 } else { 0x62 }).collect();
            let u: Vec<u32> = t.iter().map(|&c| if c == 0x61 { 0x62 } else { 0x61 }).collect();
            check_tuple(&mut ck, &u, &t, &[0x63], 0, 5);
            check_tuple(&mut ck, &t, &u, &[0x63], 0, 5);
            let mut long: Vec<u32> = vec![0x63];
            long.extend_from_slice(&u);
            long.push(0x63);
            long.extend_from_slice(&u[..n / 2]);
            check_tuple(&mut ck, &long, &t, &[], 1, 5);
            check_tuple(&mut ck, &long, &t[..n / 2].to_vec(), &[0x64], 0, 5);
            ck.rep.inc("thue_morse_tuples");
            ck.rep.eval(Some(&format!("thue-morse{}", order)));
        }
    }
    // every subject length from 0 to 300 (with a pattern of length 1-40 planted at a random place, or absent)
    let gap_lengths: Vec<usize> = (0..=300usize).chain((301..=1100).step_by(7)).chain([1500, 2047, 2048, 2049, 3000, 4095, 4096, 4097, 6000, 8191, 8192, 8193, 10_000, 16_384, 30_000, 32_768, 50_000].into_iter()).collect();
    for n in gap_lengths.into_iter().enumerate().filter(|(i, _)| *i as u64 % p.nshards == p.shard).map(|(_, n)| n) {
        for _ in 0..2 {
            let mut a: Vec<u32> = (0..n).map(|_| *rng.pick(&[0x61u32, 0x61, 0x62])).collect();
            let lb = 1 + rng.usize(40.min(n.max(1)));
            let b: Vec<u32> = (0..lb).map(|_| *rng.pick(&[0x61u32, 0x62, 0x62])).collect();
            if n >= lb && rng.chance(2, 3) {
                let at = rng.usize(n - lb + 1);
                a[at..at + lb].copy_from_slice(&b);
            }
            let i = rng.below(n as u64 + 2) as i32 - 1;
            check_tuple(&mut ck, &a, &b, &[0x63], i, rng.below(n as u64 + 2) as i32);
            ck.rep.inc("length_sweep_tuples");
        }
        ck.rep.eval(Some(&format!("len{}", n)));
    }
    // periodic, palindromic and constant strings: subject u^k v against patterns u^j w (every period 1-4 over two letters)
    let nper = p.size(400, 4000);
    for _ in 0..nper {
        let plen = 1 + rng.usize(4);
        let u: Vec<u32> = (0..plen).map(|_| *rng.pick(&[0x61u32, 0x62])).collect();
        let rep_u = |k: usize| -> Vec<u32> { u.iter().cycle().take(k).copied().collect() };
        let mut a = rep_u(rng.usize(40));
        match rng.below(4) {
            0 => a.push(0x63),
            1 => {
                // palindrome: the periodic part followed by its mirror image
                let mut r = a.clone();
                r.reverse();
                a.extend(r);
            }
            2 => a.insert(a.len() / 2, 0x63),
            _ => {}
        }
        let mut b = rep_u(rng.usize(12));
        if rng.chance(1, 3) {
            b.push(*rng.pick(&[0x61u32, 0x62, 0x63]));
        }
        if rng.chance(1, 4) {
            b.reverse();
        }
        let c: Vec<u32> = match rng.below(3) {
            0 => vec![],
            1 => u.clone(),
            _ => b.iter().chain(b.iter()).copied().collect(),
        };
        let i = rng.below(a.len() as u64 + 2) as i32 - 1;
        let n = rng.below(a.len() as u64 + 2) as i32;
        check_tuple(&mut ck, &a, &b, &c, i, n);
        ck.rep.eval(Some(&format!("per{}|{}|{}|{}", fmt_w(&a), fmt_w(&b), i, n)));
        ck.rep.inc("periodic_tuples");
    }
    // long subjects (1k-20k characters, two letters, planted patterns): same definitions, bigger indices
    let nlong = p.size(40, 400);
    for _ in 0..nlong {
        let la = if rng.chance(1, 10) { 65_530 + rng.usize(12) } else { 1000 + rng.usize(19_000) };
        let mut a: Vec<u32> = (0..la).map(|_| if rng.chance(1, 9) { 0x62 } else { 0x61 }).collect();
        let lb = if rng.chance(1, 2) { 1 + rng.usize(6) } else { 16 + rng.usize(33) };
        let st = rng.usize(la - lb);
        let b: Vec<u32> = if rng.chance(1, 2) { a[st..st + lb].to_vec() } else { (0..lb).map(|_| *rng.pick(&[0x61u32, 0x62])).collect() };
        if rng.chance(1, 2) {
            let pos = la - lb - rng.usize(3.min(la - lb));
            for (k, ch) in b.iter().enumerate() {
                if pos + k < la {
                    a[pos + k] = *ch;
                }
            }
        }
        let c: Vec<u32> = vec![0x63; rng.usize(3)];
        let i = match rng.below(4) {
            0 => la as i32,
            1 => la as i32 - lb as i32,
            2 => rng.below(la as u64) as i32,
            _ => 0,
        };
        let n = match rng.below(3) {
            0 => i32::MAX,
            1 => la as i32,
            _ => rng.below(la as u64) as i32,
        };
        check_tuple(&mut ck, &a, &b, &c, i, n);
        ck.rep.eval(Some(&format!("long{}|{}|{}|{}", la, fmt_w(&b), i, n)));
        ck.rep.inc("long_subject_tuples");
    }
    // long PATTERNS of very large code points (the code points of the pattern add up to more than 2^32; any
    // 32-bit accumulator over a window of the subject is past its range), planted away from the start
    let nbig = p.size(3, 30);
    for k in 0..nbig {
        let la = 50_000 + rng.usize(20_000);
        let lb = *rng.pick(&[21_846usize, 22_000, 30_000, 44_000]);
        let top = |rng: &mut Rng| 0x2FFFF - rng.below(if k % 2 == 0 { 4 } else { 0x1000 }) as u32;
        let mut a: Vec<u32> = (0..la).map(|_| top(&mut rng)).collect();
        let st = 1 + rng.usize(la - lb - 1);
        let b: Vec<u32> = a[st..st + lb].to_vec();
        // make sure no earlier window equals the pattern by accident: change the character just before it
        a[st - 1] = 0x2F000;
        let c: Vec<u32> = vec![0x63; rng.usize(3)];
        let i = if rng.chance(1, 2) { 0 } else { rng.below(st as u64 + 1) as i32 };
        check_tuple(&mut ck, &a, &b, &c, i, lb as i32);
        // and a pattern that does not occur (last character changed)
        let mut b2 = b.clone();
        let l = b2.len() - 1;
        b2[l] = 0x2F001;
        check_tuple(&mut ck, &a, &b2, &c, i, 5);
        ck.rep.eval(Some(&format!("bigpattern{}|{}|{}", la, lb, st)));
        ck.rep.inc("long_pattern_tuples");
    }
}

pub fn replay(kind: &str, text: &str, seed: u64, rep: &mut Report) -> bool {
    if kind != "strfn" {
        return false;
    }
    // case: "<fn> [w] [w] [w] i n" — words in show_str format; re-run all functions on the parsed tuple
    let mut words: Vec<Vec<u32>> = Vec::new();
    let mut ints: Vec<i32> = Vec::new();
    let mut rest = text.trim();
    if let Some(p) = rest.find(' ') {
        rest = &rest[p + 1..];
    } else {
        rest = "";
    }
    let mut cur = rest;
    while !cur.is_empty() {
        cur = cur.trim_start();
        if cur.starts_with('[') {
            let e = cur.find(']').unwrap_or(cur.len() - 1);
            let w: Vec<u32> = cur[1..e].split_whitespace().filter_map(|t| u32::from_str_radix(t, 16).ok()).collect();
            words.push(w);
            cur = &cur[e + 1..];
        } else if !cur.is_empty() {
            let e = cur.find(' ').unwrap_or(cur.len());
            if let Ok(x) = cur[..e].parse::<i32>() {
                ints.push(x);
            }
            cur = &cur[e..];
        }
    }
    while words.len() < 3 {
        words.push(vec![]);
    }
    let f = text.split_whitespace().next().unwrap_or("");
    // argument order differs per function: rebuild (a, b, c)
    let (a, b, c) = match f {
        "str_prefixof" | "str_suffixof" => (words[1].clone(), words[0].clone(), vec![]),
        _ => (words[0].clone(), words[1].clone(), words[2].clone()),
    };
    let i = ints.first().copied().unwrap_or(0);
    let n = ints.get(1).copied().unwrap_or(1);
    let mut ck = Ck { rep, seed };
    check_tuple(&mut ck, &a, &b, &c, i, n);
    true
}
