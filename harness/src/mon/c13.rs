//! C13 — AutomatonBuilder::build accepts only complete deterministic specifications and keeps delta.

use super::autoutil::*;
use crate::gen::autos::*;
use crate::oracle::re::Atoms;
use crate::oracle::snap::*;
use crate::util::*;

pub fn check_spec(rep: &mut Report, spec: &Spec, seed: u64) {
    let case = spec.to_text();
    let states = spec.table();
    let (class, why) = classify(&states);
    rep.hist("spec_class", &format!("{:?}:{}", class, why));
    rep.hist("spec_states", &format!("{}", states.len().min(20)));
    // one specification in four: build() called twice on one builder, the second result is judged;
    // one in four: the same calls with state labels whose hash codes collide
    let variant = fnv(&case) % 4;
    let incremental = spec.calls.iter().any(|c| matches!(c, Call::Build | Call::BuildUnchecked));
    if incremental {
        rep.inc("builds_after_an_earlier_build_and_more_calls_judged");
    }
    if variant == 0 {
        rep.inc("second_build_on_same_builder_judged");
    }
    if variant == 1 {
        rep.inc("builds_with_colliding_label_hashes_judged");
    }
    let built = match variant {
        0 => build_spec_twice(spec),
        1 => build_spec_clash(spec),
        _ => build_spec(spec),
    };
    judge(rep, spec, built, seed);
}

/// judge the outcome of the (last) build() against the whole call list of `spec`
pub fn judge(rep: &mut Report, spec: &Spec, built: Result<Result<aws_smt_strings::automata::Automaton, aws_smt_strings::errors::Error>, String>, seed: u64) {
    let case = spec.to_text();
    let states = spec.table();
    let (class, why) = classify(&states);
    let res = match built {
        Ok(r) => r,
        Err(msg) => {
            rep.violation("build-panic", &format!("build-panic:{}", why), format!("build() panicked on a {} specification: {}", why, msg), "autospec", &case, seed);
            return;
        }
    };
    match (&res, class) {
        (Ok(_), Class::MustReject) => {
            rep.violation(
                "accepts-bad-spec",
                &format!("accepts-bad-spec:{}", why),
                format!("build() returned Ok for a specification that is {} (a state leaves characters without successor, or gives one character two successors)", why),
                "autospec",
                &case,
                seed,
            );
            return;
        }
        (Err(e), Class::MustAccept) => {
            rep.violation("rejects-good-spec", "rejects-good-spec", format!("build() returned Err({}) for a complete, conflict-free specification with defaults only where needed", e), "autospec", &case, seed);
            return;
        }
        (Err(_), _) => {
            rep.inc("rejected_as_required_or_grey");
            return;
        }
        (Ok(_), _) => {}
    }
    let auto = res.unwrap();
    rep.inc("accepted_automata_checked");
    // the automaton must be the specification, up to a renaming of states
    let mut pts = spec_points(&states);
    pts.extend(automaton_points(&auto));
    let atoms = Atoms::from_points(&pts);
    let want = match spec_dfa(&states, &atoms) {
        Some(d) => d,
        None => {
            rep.harness_error("accepted spec has an undefined cell".into());
            return;
        }
    };
    let snap = match observe(&auto, &atoms) {
        Ok(d) => d,
        Err(ObsError::Broken(m)) | Err(ObsError::NonUniform(m)) => {
            rep.violation("delta", "delta:broken", format!("automaton built from the specification cannot be observed: {}", m), "autospec", &case, seed);
            return;
        }
    };
    rep.count("cells_compared", (want.n() * want.a) as u64);
    if auto.num_states() != states.len() {
        rep.violation("delta", "delta:num-states", format!("build() returned {} states for {} labels", auto.num_states(), states.len()), "autospec", &case, seed);
        return;
    }
    match isomorphism(&want, &snap) {
        Ok(_) => {}
        Err(m) if m.starts_with("UNDECIDED") => rep.inc("isomorphism_undecided"),
        Err(m) => {
            rep.violation("delta", "delta:differs", format!("the automaton returned by build() is not the specified transition structure: {}", m), "autospec", &case, seed);
            return;
        }
    }
    let nf = states.iter().filter(|s| s.is_final).count();
    if auto.num_final_states() != nf || auto.final_states().count() != nf {
        rep.violation("delta", "delta:final-count", format!("num_final_states() = {}, final_states() yields {}, specification marks {}", auto.num_final_states(), auto.final_states().count(), nf), "autospec", &case, seed);
    }
}

pub fn run(p: &Params, rep: &mut Report) {
    let mut rng = p.rng(13);
    let n = p.size(20_000, 300_000);
    let mut previous: Option<Spec> = None;
    for i in 0..n {
        let spec = match i % 10 {
            0..=4 => gen_wellformed(&mut rng, p.thorough),
            5..=7 => {
                let (s, kind) = gen_broken(&mut rng, p.thorough);
                rep.hist("injected_defect", kind);
                s
            }
            8 => gen_grey(&mut rng, p.thorough),
            _ => {
                if i % 20 == 9 {
                    gen_superfluous_default(&mut rng)
                } else {
                    gen_grey(&mut rng, p.thorough)
                }
            }
        };
        let seed = rng.next();
        let text = spec.to_text();
        rep.eval(Some(&text));
        rep.sample(|| text.replace('\n', "; "));
        if let Err(m) = guard(|| check_spec(rep, &spec, seed)) {
            if panic_in_harness(&m) {
                rep.harness_error(m);
            } else {
                rep.violation("panic", "panic-unguarded", format!("crate panicked: {}", m), "autospec", &text, seed);
            }
        }
        // two builders alive at the same time, fed alternately with this specification and the previous one
        if i % 5 == 1 {
            if let Some(prev) = &previous {
                rep.inc("interleaved_builder_pairs");
                let (ra, rb) = build_two_interleaved(prev, &spec);
                judge(rep, prev, ra, seed);
                judge(rep, &spec, rb, seed);
            }
        }
        previous = Some(spec.clone());
        // the builder extended after a build: the same calls with one or two intermediate build() calls; the final
        // build must judge (and return) the whole specification, exactly like a fresh builder given all the calls
        if i % 3 == 0 && spec.calls.len() >= 2 {
            let mut inc = spec.clone();
            let n = inc.calls.len();
            // cut points: uniformly, or just before the last few calls (where generators put re-declarations and defects)
            let cut = if rng.chance(1, 2) { 1 + rng.usize(n - 1) } else { n - 1 - rng.usize(3.min(n - 1)) };
            inc.calls.insert(cut.max(1), if rng.chance(1, 3) { Call::BuildUnchecked } else { Call::Build });
            if rng.chance(1, 4) {
                let c2 = 1 + rng.usize(inc.calls.len() - 1);
                inc.calls.insert(c2, if rng.chance(1, 3) { Call::BuildUnchecked } else { Call::Build });
            }
            let text = inc.to_text();
            rep.eval(Some(&text));
            if let Err(m) = guard(|| check_spec(rep, &inc, seed)) {
                if panic_in_harness(&m) {
                    rep.harness_error(m);
                } else {
                    rep.violation("panic", "panic-unguarded", format!("crate panicked: {}", m), "autospec", &text, seed);
                }
            }
        }
    }
}

pub fn replay(kind: &str, text: &str, seed: u64, rep: &mut Report) -> bool {
    if kind != "autospec" {
        return false;
    }
    match Spec::from_text(text) {
        Ok(s) => check_spec(rep, &s, seed),
        Err(e) => rep.harness_error(e),
    }
    true
}
