//! C05 — emptiness test and witness generation are exact.

use super::c01::cfg;
use super::c02::closure_cap;
use super::rectx::*;
use crate::gen::reprog::*;
use crate::oracle::re::*;
use crate::util::*;
use aws_smt_strings::regular_expressions::RegLan;

/// the same questions against the expression as the caller wrote it (only for results of program steps)
fn check_vs_construction(s: &mut Sess, rep: &mut Report, t: RegLan, k: usize) {
    let rb = s.run.refs[k].clone();
    let db = match s.ctx.dfa(&rb) {
        Ok(d) => d,
        Err(_) => return,
    };
    let cap = closure_cap(s.thorough);
    if closure_size(&mut s.m, t, cap).is_none() {
        return;
    }
    rep.inc("terms_checked_against_construction");
    let empty = db.is_empty();
    if let Ok(got) = guard(|| s.m.is_empty_re(t)) {
        if got != empty {
            s.viol(rep, "emptiness", "emptiness:vs-construction", format!("is_empty_re of the construction {} (term {}) = {} but its SMT-LIB language is {}", short(&rb.show(), 160), term_text(t), got, if empty { "empty" } else { "non-empty" }), k);
            return;
        }
    }
    if let Ok(Some(w)) = guard(|| s.m.get_string(t)) {
        let wd: Vec<u32> = w.iter().copied().collect();
        if wd.iter().all(|&c| c <= MAXC) {
            let aw = s.ctx.atoms().word_of(&wd);
            if !db.accepts(&aw) {
                s.viol(rep, "witness", "witness:vs-construction", format!("get_string of the construction {} (term {}) = {} which is not in its SMT-LIB language", short(&rb.show(), 160), term_text(t), show_str(&wd)), k);
            }
        }
    }
}

pub fn check_term(s: &mut Sess, rep: &mut Report, t: RegLan, k: usize) {
    let cap = closure_cap(s.thorough);
    let t0 = std::time::Instant::now();
    let cs = closure_size(&mut s.m, t, cap);
    rep.count("ms_in_closure_size", t0.elapsed().as_millis() as u64);
    if cs.is_none() {
        rep.inc("skipped_derivative_budget");
        return;
    }
    let t1 = std::time::Instant::now();
    let dref = s.ctx.term_dfa(t);
    rep.count("ms_in_refdfa", t1.elapsed().as_millis() as u64);
    let dref = match dref {
        Ok(d) => d,
        Err(_) => {
            rep.inc("skipped_refdfa_budget");
            return;
        }
    };
    let empty = dref.is_empty();
    rep.inc(if empty { "terms_with_empty_language" } else { "terms_with_nonempty_language" });
    if empty && !t.is_empty() {
        rep.inc("terms_semantically_but_not_syntactically_empty");
    }
    match guard(|| s.m.is_empty_re(t)) {
        Ok(got) => {
            if got != empty {
                let wit = dref.witness_from(dref.start).map(|w| show_str(&s.ctx.atoms().word(&w)));
                s.viol(rep, "emptiness", if got { "emptiness:false-empty" } else { "emptiness:false-nonempty" }, format!("is_empty_re({}) = {} but the language is {} (member: {:?})", term_text(t), got, if empty { "empty" } else { "non-empty" }, wit), k);
            }
        }
        Err(msg) => s.viol(rep, "emptiness", "emptiness:panic", format!("is_empty_re({}) panicked: {}", term_text(t), msg), k),
    }
    match guard(|| s.m.get_string(t)) {
        Ok(None) => {
            if !empty {
                s.viol(rep, "witness", "witness:none-on-nonempty", format!("get_string({}) = None but the language is not empty", term_text(t)), k);
            }
        }
        Ok(Some(w)) => {
            rep.inc("witnesses_checked");
            let wd: Vec<u32> = w.iter().copied().collect();
            if empty {
                s.viol(rep, "witness", "witness:some-on-empty", format!("get_string({}) = {} but the language is empty", term_text(t), show_str(&wd)), k);
                return;
            }
            if !w.is_good() || wd.iter().any(|&c| c > MAXC) {
                s.viol(rep, "witness", "witness:not-good", format!("get_string({}) = {} is not a well-formed SMT string", term_text(t), show_str(&wd)), k);
                return;
            }
            let aw = s.ctx.atoms().word_of(&wd);
            let in_b = dref.accepts(&aw);
            let r = s.ctx.sref(t);
            if wd.len() <= 8 {
                let in_a = dp_matches(&r, &wd);
                if in_a != in_b {
                    rep.harness_error(format!("oracle A/B disagree on {} for {}", show_str(&wd), r.show()));
                    return;
                }
            }
            if !in_b {
                s.viol(rep, "witness", "witness:not-member", format!("get_string({}) = {} which is not in the language", term_text(t), show_str(&wd)), k);
                return;
            }
            match guard(|| s.m.str_in_re(&w, t)) {
                Ok(true) => {}
                Ok(false) => s.viol(rep, "witness", "witness:rejected-by-str_in_re", format!("get_string({}) = {} is rejected by str_in_re", term_text(t), show_str(&wd)), k),
                Err(msg) => s.viol(rep, "witness", "witness:panic", format!("str_in_re panicked on witness: {}", msg), k),
            }
            match guard(|| s.m.compile(t).accepts(&w)) {
                Ok(true) => {}
                Ok(false) => s.viol(rep, "witness", "witness:rejected-by-automaton", format!("get_string({}) = {} is rejected by compile(e)", term_text(t), show_str(&wd)), k),
                Err(msg) => s.viol(rep, "witness", "witness:panic", format!("compile/accepts panicked on witness: {}", msg), k),
            }
        }
        Err(msg) => s.viol(rep, "witness", "witness:panic", format!("get_string({}) panicked: {}", term_text(t), msg), k),
    }
}

pub fn check_program(prog: &Program, seed: u64, thorough: bool, rep: &mut Report) {
    let c = cfg(thorough);
    let mut s = Sess::start(prog, seed, thorough, c.budget, c.noise, rep);
    for k in 0..s.run.terms.len() {
        let t = s.run.terms[k];
        let nontrivial = s.run.refs[k].size() >= 3;
        let key = s.run.refs[k].show();
        rep.eval(if nontrivial { Some(&key) } else { None });
        check_term(&mut s, rep, t, k);
        check_vs_construction(&mut s, rep, t, k);
    }
    // ask again after the whole history, in reverse order: answers must not depend on earlier queries
    for k in (0..s.run.terms.len()).rev() {
        let t = s.run.terms[k];
        if let Ok(d) = s.ctx.term_dfa(t) {
            if closure_size(&mut s.m, t, closure_cap(thorough)).is_none() {
                continue;
            }
            rep.inc("emptiness_reasked_after_history");
            let empty = d.is_empty();
            match guard(|| (s.m.is_empty_re(t), s.m.get_string(t).is_none())) {
                Ok((e1, none)) => {
                    if e1 != empty || none != empty {
                        s.viol(rep, "emptiness", "emptiness:history-dependent", format!("asked again after other queries: is_empty_re({}) = {}, get_string is None = {}, but the language is {}", term_text(t), e1, none, if empty { "empty" } else { "non-empty" }), k);
                        break;
                    }
                }
                Err(msg) => {
                    s.viol(rep, "emptiness", "emptiness:panic", format!("is_empty_re/get_string panicked when asked again: {}", msg), k);
                    break;
                }
            }
        }
    }
    // derivatives are inputs too: sample terms from the manager's store
    let all = s.m.verif_terms();
    let extra = if thorough { 40 } else { 15 };
    let last = s.run.terms.len().saturating_sub(1);
    for _ in 0..extra.min(all.len()) {
        let t = *s.rng.pick(&all);
        rep.inc("store_terms_sampled");
        check_term(&mut s, rep, t, last);
    }
}

pub fn run(p: &Params, rep: &mut Report) {
    if p.shard == 8 {
        // depth instead of width: terms nested a few hundred (thousand) levels deep
        for d in if p.thorough { vec![64u32, 257, 1000, 3000] } else { vec![65u32, 256, 700 + (p.seed as u32 % 7) * 50] } {
            super::ladder::deep_nesting(rep, "C05", d, p.seed);
        }
    }
    if p.shard == 5 {
        let n = if p.thorough { 150_000 } else { 70_000 };
        super::deep::probe(rep, "re-chain", n, "ok", "witness", p.seed);
    }
    if p.shard == 4 {
        let n = if p.thorough { super::scale::N_THOROUGH } else { super::scale::N_QUICK };
        super::scale::c05(rep, n, p.seed);
    }
    if p.shard == 6 {
        for centre in [256, 65536] {
            super::ladder::traversal_gap(rep, super::ladder::Trav::Empty, centre, p.seed);
            super::ladder::traversal_gap(rep, super::ladder::Trav::GetString, centre, p.seed);
        }
    }
    for_firstchar_programs(p, rep, p.size(25, 250), |prog, seed, rep| check_program(prog, seed, p.thorough, rep));
    for_max_loop_programs(p, rep, p.size(6, 60), |prog, seed, rep| check_program(prog, seed, p.thorough, rep));
    let stride = 1;
    for_tiny_programs(p, rep, stride, p.size(150, 3000), |prog, seed, rep| check_program(prog, seed, p.thorough, rep));
    let n = p.size(200, 1200);
    let w = [(Profile::Boundary, 15), (Profile::Loops, 25), (Profile::Boolean, 35), (Profile::Patterns, 10), (Profile::Mixed, 15)];
    for_programs(p, rep, 5, n, &w, (15, 45), |prog, seed, rep| check_program(prog, seed, p.thorough, rep));
}

pub fn replay(kind: &str, text: &str, seed: u64, rep: &mut Report) -> bool {
    if kind == "scale" {
        super::scale::c05(rep, text.trim().parse().unwrap_or(super::scale::N_QUICK), seed);
        return true;
    }
    if kind != KIND_MGR {
        return false;
    }
    replay_program(text, rep, |p, rep| check_program(p, seed, false, rep))
}
