//! Self-test of the reference engine: Hopcroft vs Moore on random DFAs, oracle A (DP) vs oracle B (RefDfa)
//! on random expressions and words. A failure here is a harness error, never a verdict about the crate.

use crate::gen::reprog::*;
use crate::oracle::re::*;
use crate::util::*;

pub fn run(seed: u64, rounds: usize) -> Result<String, String> {
    let mut rng = Rng::new(seed);
    // 1. minimisation algorithms agree
    for _ in 0..rounds {
        let n = 1 + rng.usize(60);
        let a = 1 + rng.usize(4);
        let few = 1 + rng.usize(n);
        let t: Vec<u32> = (0..n * a).map(|_| rng.usize(few) as u32).collect();
        let f: Vec<bool> = (0..n).map(|_| rng.chance(1, 3)).collect();
        let d = Dfa { a, t, f, start: 0 };
        let (c1, k1) = d.moore_classes();
        let (c2, k2) = d.hopcroft_classes();
        if k1 != k2 {
            return Err(format!("hopcroft {} classes, moore {} classes", k2, k1));
        }
        // same partition
        let mut map = std::collections::HashMap::new();
        for s in 0..n {
            if *map.entry(c1[s]).or_insert(c2[s]) != c2[s] {
                return Err("hopcroft and moore partitions differ".into());
            }
        }
        let m = d.minimize();
        if d.diff(&m).is_some() || m.moore_classes().1 != m.n() {
            return Err("minimize() changed the language or is not minimal".into());
        }
    }
    // 2. DP matcher vs DFA engine on random programs
    let mut checked = 0u64;
    for i in 0..rounds {
        let prof = [Profile::Boundary, Profile::Loops, Profile::Boolean, Profile::Mixed][i % 4];
        let prog = gen_program(&mut rng, prof, 25);
        let mut refs: Vec<R> = Vec::new();
        for op in &prog.ops {
            let r = op.denote(&refs);
            refs.push(r);
        }
        let mut eng = Engine::new(Atoms::from_points(&prog.all_points()), 4000);
        let pts = prog.all_points();
        for r in &refs {
            eng.ensure_ref(r);
            let d = match eng.dfa(r) {
                Ok(d) => d,
                Err(_) => continue,
            };
            if d.is_empty() != d.witness_from(d.start).is_none() {
                return Err("is_empty / witness disagree".into());
            }
            for _ in 0..12 {
                let w = gen_word(&mut rng, &pts, 6);
                let aw = eng.atoms.word_of(&w);
                checked += 1;
                if d.accepts(&aw) != dp_matches(r, &w) {
                    return Err(format!("oracle A/B disagree on {} for {}", show_str(&w), r.show()));
                }
            }
            if r.has_eps() != d.accepts(&[]) {
                return Err(format!("has_eps disagrees with the DFA for {}", r.show()));
            }
        }
    }
    // 3. the direct construction for unions of rigid words agrees with successive products
    for _ in 0..rounds / 4 + 1 {
        let n = 8 + rng.usize(12);
        let pool: Vec<u32> = (0..6).map(|_| 0x40 + rng.below(12) as u32).collect();
        let mut words: Vec<Vec<(u32, u32)>> = Vec::new();
        for _ in 0..n {
            let len = rng.usize(4);
            words.push((0..len).map(|_| { let a = *rng.pick(&pool); let b = *rng.pick(&pool); (a.min(b), a.max(b)) }).collect());
        }
        let mut pts = Vec::new();
        for w in &words {
            for &(a, b) in w {
                pts.push(a);
                pts.push(b);
            }
        }
        let atoms = Atoms::from_points(&pts);
        let bud = Bud::new(4000, 10_000_000);
        let direct = Dfa::from_rigid_words(&words, &atoms, &bud).map_err(|_| "budget in selftest".to_string())?;
        let mut acc = Dfa::none(atoms.n());
        for w in &words {
            let mut d = Dfa::eps(atoms.n());
            for &(x, y) in w {
                let set: Vec<bool> = (0..atoms.n()).map(|k| x <= atoms.lo[k] && atoms.hi(k) <= y).collect();
                d = d.cat(&Dfa::sym(atoms.n(), &set), &bud).map_err(|_| "budget in selftest".to_string())?;
            }
            acc = acc.prod(&d, false, &bud).map_err(|_| "budget in selftest".to_string())?;
        }
        if direct.diff(&acc).is_some() || direct.n() != acc.n() {
            return Err("direct construction for unions of rigid words disagrees with successive products".into());
        }
    }
    Ok(format!("selftest ok: {} random DFAs minimised two ways, {} membership answers compared between oracle A and B", rounds, checked))
}
