//! C14 — reachability pruning and the compiled successor table agree with the automaton.

use super::autoutil::*;
use super::rectx::*;
use crate::gen::autos::*;
use crate::gen::reprog::*;
use crate::oracle::re::Atoms;
use crate::oracle::snap::*;
use crate::util::*;
use aws_smt_strings::automata::Automaton;
use aws_smt_strings::character_sets::ClassId;

const MAXC: u32 = 0x2FFFF;

pub fn check_automaton(rep: &mut Report, auto: &mut Automaton, origin: &str, kind: &str, case: &str, seed: u64) -> bool {
    macro_rules! bad {
        ($rule:expr, $($arg:tt)*) => {{
            rep.violation($rule, &format!("{}:{}", $rule, origin), format!($($arg)*), kind, case, seed);
            return false;
        }};
    }
    let atoms = Atoms::from_points(&automaton_points(auto));
    let snap = match observe(auto, &atoms) {
        Ok(d) => d,
        Err(_) => {
            rep.inc("skipped_unobservable_input");
            return true;
        }
    };
    let n = snap.n();
    rep.inc("automata_checked");
    // ---- descriptive accessors agree with next()
    let nf = snap.f.iter().filter(|&&b| b).count();
    if auto.num_states() != n || auto.num_final_states() != nf {
        bad!("accessors", "num_states() = {}, num_final_states() = {} but states()/is_final() show {} and {}", auto.num_states(), auto.num_final_states(), n, nf);
    }
    let finals: Vec<usize> = auto.final_states().map(|s| s.id()).collect();
    let want_finals: Vec<usize> = (0..n).filter(|&i| snap.f[i]).collect();
    if finals != want_finals {
        bad!("accessors", "final_states() yields {:?}, states with is_final() are {:?}", finals, want_finals);
    }
    rep.inc("iterator_law_checks");
    if let Err(e) = iter_laws_by(|| auto.states(), |s| s.id()) {
        bad!("accessors", "states(): {}", e);
    }
    if let Err(e) = iter_laws_by(|| auto.final_states(), |s| s.id()) {
        bad!("accessors", "final_states(): {}", e);
    }
    for i in 0..n {
        let s = auto.state(i);
        if i < 4 || i + 2 >= n {
            if let Err(e) = iter_laws_by(|| auto.edges(s), |(cid, nx)| (*cid, nx.id())).and(iter_laws_by(|| s.char_ranges(), |c| **c)) {
                bad!("edges", "edges(state {}) / char_ranges(): {}", i, e);
            }
        }
        let ranges: Vec<(u32, u32)> = s.char_ranges().map(|c| (c.pick(), c.pick() + (c.size() - 1))).collect();
        let mut seen = 0;
        for (cid, nx) in auto.edges(s) {
            seen += 1;
            rep.inc("edges_checked");
            let via_class = match guard(|| auto.class_next(s, cid).id()) {
                Ok(x) => x,
                Err(m) => bad!("edges", "class_next(state {}, {}) panicked for a class listed by edges(): {}", i, cid, m),
            };
            let via_char = match cid {
                ClassId::Interval(k) => {
                    if k >= ranges.len() {
                        bad!("edges", "edges(state {}) lists {} but the state has {} ranges", i, cid, ranges.len());
                    }
                    Some(auto.next(s, ranges[k].0).id())
                }
                ClassId::Complement => {
                    // a character outside all ranges
                    let mut c = 0u32;
                    let mut found = None;
                    for &(a, b) in &ranges {
                        if c < a {
                            found = Some(c);
                            break;
                        }
                        c = b + 1;
                    }
                    if found.is_none() && c <= MAXC {
                        found = Some(c);
                    }
                    found.map(|c| auto.next(s, c).id())
                }
            };
            if let ClassId::Interval(k) = cid {
                use aws_smt_strings::character_sets::CharSet;
                let (a, b) = ranges[k];
                match guard(|| auto.char_set_next(s, &CharSet::range(a, b)).map(|t| t.id())) {
                    Ok(Ok(id)) if id == nx.id() => {}
                    other => bad!("edges", "char_set_next(state {}, [{:x},{:x}]) = {:?} but that class goes to {}", i, a, b, other, nx.id()),
                }
                // {b, b+1} straddles the end of the class: b+1 lies in the next interval or in the complementary class
                if b < MAXC {
                    let r = guard(|| auto.char_set_next(s, &CharSet::range(b, b + 1)).map(|t| t.id()));
                    if !matches!(r, Ok(Err(_))) {
                        bad!("edges", "char_set_next(state {}, [{:x},{:x}]) = {:?} although the set meets two classes", i, b, b + 1, r);
                    }
                }
                rep.inc("char_set_next_probes");
            }
            if via_class != nx.id() || via_char.map_or(false, |x| x != nx.id()) {
                bad!("edges", "edges(state {}) says class {} goes to {}, class_next says {}, next() on a character of the class says {:?}", i, cid, nx.id(), via_class, via_char);
            }
            if cid == ClassId::Complement && (auto.default_successor(s).map(|d| d.id()) != Some(nx.id()) || s.default_successor() != Some(nx.id())) {
                bad!("edges", "default_successor of state {} disagrees with the complement edge", i);
            }
        }
        // per-state class accessors
        let comp_nonempty = {
            let covered: u64 = ranges.iter().map(|&(a, b)| (b - a + 1) as u64).sum();
            covered < MAXC as u64 + 1
        };
        let picks: Vec<u32> = s.char_picks().collect();
        let classes: Vec<ClassId> = s.char_classes().collect();
        let want_n = ranges.len() + comp_nonempty as usize;
        if picks.len() != want_n || classes.len() != want_n {
            bad!("state-accessors", "state {}: char_picks() yields {} characters and char_classes() {} ids for {} classes", i, picks.len(), classes.len(), want_n);
        }
        for (q, (&c, &cid)) in picks.iter().zip(classes.iter()).enumerate() {
            let by_scan = ranges.iter().position(|&(a, b)| a <= c && c <= b);
            let want_cid = match by_scan {
                Some(j) => ClassId::Interval(j),
                None => ClassId::Complement,
            };
            if c > MAXC || s.class_of_char(c) != want_cid || cid != want_cid || !s.valid_class_id(cid) || (q < ranges.len()) != by_scan.is_some() {
                bad!("state-accessors", "state {}: pick #{} = {:x} is listed for class {} but lies in {}", i, q, c, cid, want_cid);
            }
            if auto.class_next(s, cid).id() != auto.next(s, c).id() {
                bad!("state-accessors", "state {}: class_next({}) and next({:x}) disagree", i, cid, c);
            }
        }
        if s.valid_class_id(ClassId::Interval(ranges.len())) || s.valid_class_id(ClassId::Complement) != comp_nonempty {
            bad!("state-accessors", "state {}: valid_class_id accepts an invalid id or rejects the complement", i);
        }
        if comp_nonempty && !s.has_default_successor() {
            bad!("state-accessors", "state {}: has uncovered characters but no default successor", i);
        }
        rep.inc("state_accessor_checks");
        let want_edges = ranges.len() + s.has_default_successor() as usize;
        if seen != want_edges || s.num_successors() != ranges.len() {
            bad!("edges", "edges(state {}) yields {} edges for {} ranges and default={}", i, seen, ranges.len(), s.has_default_successor());
        }
    }

    // ---- combined partition, alphabet, compiled table
    let comb = match guard(|| auto.combined_char_partition()) {
        Ok(p) => p,
        Err(m) => bad!("combined", "combined_char_partition() panicked: {}", m),
    };
    let cr: Vec<(u32, u32)> = comb.ranges().map(|c| (c.pick(), c.pick() + (c.size() - 1))).collect();
    // probes per class: both ends and middle of each interval; all gap end points for the complement
    let mut class_probes: Vec<Vec<u32>> = cr.iter().map(|&(a, b)| vec![a, a + (b - a) / 2, b]).collect();
    let mut comp: Vec<u32> = Vec::new();
    let mut c = 0u32;
    for &(a, b) in &cr {
        if c < a {
            comp.push(c);
            comp.push(a - 1);
            comp.push(c + (a - 1 - c) / 2);
        }
        c = b + 1;
    }
    if c <= MAXC {
        comp.push(c);
        comp.push(MAXC);
        comp.push(c + (MAXC - c) / 2);
    }
    let has_comp = !comp.is_empty();
    if has_comp == comb.empty_complement() {
        bad!("combined", "combined partition: empty_complement() = {} but uncovered characters exist = {}", comb.empty_complement(), has_comp);
    }
    if has_comp {
        class_probes.push(comp);
    }
    for (ci, probes) in class_probes.iter().enumerate() {
        for i in 0..n {
            let s = auto.state(i);
            let first = auto.next(s, probes[0]).id();
            for &x in &probes[1..] {
                rep.inc("combined_class_probes");
                if auto.next(s, x).id() != first {
                    bad!("combined", "combined_char_partition() puts {:x} and {:x} in one class (#{}) but state {} sends them to {} and {}", probes[0], x, ci, i, first, auto.next(s, x).id());
                }
            }
        }
    }
    if cr.len() <= 40 {
        let mut prng = Rng::new(seed ^ 0x14);
        let before = rep.violation_count;
        super::c11::check_partition(rep, &cr, &comb, "combined_char_partition", seed, false, &mut prng);
        rep.inc("combined_partitions_queried_like_any_partition");
        if rep.violation_count > before {
            return false;
        }
    }
    let alpha = match guard(|| auto.pick_alphabet()) {
        Ok(a) => a,
        Err(m) => bad!("alphabet", "pick_alphabet() panicked: {}", m),
    };
    // exactly one character per class
    let class_of = |x: u32| -> usize { cr.iter().position(|&(a, b)| a <= x && x <= b).unwrap_or(cr.len()) };
    let mut cls: Vec<usize> = alpha.iter().map(|&x| class_of(x)).collect();
    cls.sort_unstable();
    let want_cls: Vec<usize> = (0..class_probes.len()).collect();
    if cls != want_cls || alpha.iter().any(|&x| x > MAXC) {
        bad!("alphabet", "pick_alphabet() = {:x?} is not one character per class of {:x?} (complement non-empty: {})", alpha, cr, has_comp);
    }
    let table = match guard(|| auto.compile_successors()) {
        Ok(t) => t,
        Err(m) => bad!("table", "compile_successors() panicked: {}", m),
    };
    if table.num_states() != n || table.alphabet_size() != alpha.len() {
        bad!("table", "compiled table is {} x {}, automaton is {} x {}", table.num_states(), table.alphabet_size(), n, alpha.len());
    }
    let mut nondefault = 0;
    for i in 0..n {
        let s = auto.state(i);
        for (k, &ch) in alpha.iter().enumerate() {
            rep.inc("table_cells_compared");
            let want = auto.next(s, ch).id() as u32;
            let got = match guard(|| table.eval(i as u32, k as u32)) {
                Ok(g) => g,
                Err(m) => bad!("table", "eval({}, {}) panicked: {}", i, k, m),
            };
            if got != want {
                bad!("table", "compile_successors().eval({}, {}) = {} but next(state {}, {:x}) = {}", i, k, got, i, ch, want);
            }
            if !s.char_maps_to_default(ch) {
                nondefault += 1;
            }
        }
    }
    rep.hist("table_states", &format!("<={}", pow2(n)));
    rep.hist("table_alphabet_classes", &format!("<={}", pow2(alpha.len())));
    rep.hist("table_nondefault_cells", &format!("<={}", pow2(nondefault)));

    // ---- remove_unreachable_states
    let reach = snap.reachable();
    let nreach = reach.iter().filter(|&&b| b).count();
    if nreach < n {
        rep.inc("automata_with_unreachable_states");
    }
    if let Err(m) = guard(|| auto.remove_unreachable_states()) {
        bad!("prune", "remove_unreachable_states() panicked: {}", m);
    }
    let after = match observe(auto, &atoms) {
        Ok(d) => d,
        Err(ObsError::Broken(m)) | Err(ObsError::NonUniform(m)) => bad!("prune", "automaton cannot be observed after remove_unreachable_states(): {}", m),
    };
    if after.n() != nreach {
        bad!("prune", "remove_unreachable_states() kept {} states, {} are reachable from the initial state", after.n(), nreach);
    }
    if let Some(cex) = snap.diff(&after) {
        bad!("prune", "remove_unreachable_states() changed the language: word {}", show_str(&atoms.word(&cex)));
    }
    // isomorphic to the reachable sub-automaton: restrict the snapshot to reachable states
    let map: Vec<u32> = {
        let mut m = vec![u32::MAX; n];
        let mut k = 0;
        for i in 0..n {
            if reach[i] {
                m[i] = k;
                k += 1;
            }
        }
        m
    };
    let mut t = Vec::new();
    let mut f = Vec::new();
    for i in 0..n {
        if reach[i] {
            f.push(snap.f[i]);
            for k in 0..snap.a {
                t.push(map[snap.step(i as u32, k) as usize]);
            }
        }
    }
    let sub = crate::oracle::re::Dfa { a: snap.a, t, f, start: map[snap.start as usize] };
    if let Err(m) = isomorphism(&sub, &after) {
        bad!("prune", "the pruned automaton is not the reachable part of the original: {}", m);
    }
    // the table of the pruned automaton (a cached table from before the prune would be stale)
    match guard(|| {
        let alpha2 = auto.pick_alphabet();
        let t2 = auto.compile_successors();
        (alpha2, t2)
    }) {
        Ok((alpha2, t2)) => {
            if t2.num_states() != after.n() || t2.alphabet_size() != alpha2.len() {
                bad!("table", "after pruning the compiled table is {} x {}, the automaton is {} x {}", t2.num_states(), t2.alphabet_size(), after.n(), alpha2.len());
            }
            for i in 0..after.n() {
                let st = auto.state(i);
                for (kk, &ch) in alpha2.iter().enumerate() {
                    rep.inc("table_cells_compared");
                    if t2.eval(i as u32, kk as u32) != auto.next(st, ch).id() as u32 {
                        bad!("table", "after pruning: compile_successors().eval({}, {}) = {} but next(state {}, {:x}) = {}", i, kk, t2.eval(i as u32, kk as u32), i, ch, auto.next(st, ch).id());
                    }
                }
            }
        }
        Err(m) => bad!("table", "compile_successors() panicked after pruning: {}", m),
    }
    let nf2 = after.f.iter().filter(|&&b| b).count();
    if auto.num_states() != after.n() || auto.num_final_states() != nf2 || auto.final_states().count() != nf2 {
        bad!("prune", "after pruning: num_states {} (observed {}), num_final_states {} (observed {})", auto.num_states(), after.n(), auto.num_final_states(), nf2);
    }
    true
}

fn pow2(n: usize) -> usize {
    n.max(1).next_power_of_two()
}

pub fn check_spec(rep: &mut Report, spec: &Spec, seed: u64) {
    let case = spec.to_text();
    let mut auto = match build_spec(spec) {
        Ok(Ok(a)) => a,
        _ => {
            rep.inc("spec_not_built");
            return;
        }
    };
    if !check_automaton(rep, &mut auto, "builder", "autospec", &case, seed) {
        return;
    }
    // the same automaton after minimize(): different numbering, initial state usually not 0
    if let Ok(Ok(mut a2)) = build_spec(spec) {
        if guard(|| a2.minimize()).is_ok() {
            rep.inc("minimized_builder_automata");
            check_automaton(rep, &mut a2, "builder+minimized", "autospec", &case, seed);
        }
    }
}

pub fn check_program(prog: &Program, seed: u64, thorough: bool, rep: &mut Report) {
    let c = super::c01::cfg(thorough);
    let mut s = Sess::start(prog, seed, thorough, c.budget, 0, rep);
    for k in 0..s.run.terms.len() {
        let t = s.run.terms[k];
        if closure_size(&mut s.m, t, 300).is_none() {
            rep.inc("skipped_derivative_budget");
            continue;
        }
        let mut auto = match guard(|| s.m.compile(t)) {
            Ok(a) => a,
            Err(_) => continue,
        };
        let case = s.case(k);
        rep.eval(Some(&format!("re:{}", s.run.refs[k].show())));
        // also on the minimized automaton (different state numbering and defaults)
        check_automaton(rep, &mut auto, "compiled", KIND_MGR, &case, seed);
        if guard(|| auto.minimize()).is_ok() {
            check_automaton(rep, &mut auto, "compiled+minimized", KIND_MGR, &case, seed);
        }
    }
}

pub fn run(p: &Params, rep: &mut Report) {
    if p.shard == 0 {
        let n = if p.thorough { 50_000 } else { 20_000 };
        super::deep::probe(rep, "auto-chain", n, &super::deep::expect_auto_chain(n), "prune", p.seed);
    }
    if p.shard % 4 == 1 {
        // states with more than 2^10 (2^11) explicit successors each, over an alphabet of 3 * labels classes
        let labels = if p.thorough { 6300 } else { 3000 + 300 * (p.seed as u32 % 4) };
        let spec = many_successors_spec(2 + (p.shard as u32 / 4), labels);
        rep.inc("wide_alphabet_automata");
        check_spec(rep, &spec, p.seed);
    }
    let mut rng = p.rng(14);
    let n = p.size(8000, 80_000);
    for it in 0..n {
        // one in forty: a covered state with a superfluous default to an otherwise unreachable state
        // (build() may refuse it; an automaton it returns must still describe only real transitions)
        let spec = if it % 40 == 39 { gen_superfluous_default(&mut rng) } else { gen_wellformed(&mut rng, p.thorough) };
        let seed = rng.next();
        let text = spec.to_text();
        rep.eval(Some(&text));
        rep.sample(|| text.replace('\n', "; "));
        if let Err(m) = guard(|| check_spec(rep, &spec, seed)) {
            if panic_in_harness(&m) {
                rep.harness_error(m);
            } else {
                rep.violation("panic", "panic-unguarded", format!("crate panicked: {}", m), "autospec", &text, seed);
            }
        }
    }
    let np = p.size(40, 400);
    for_programs(p, rep, 41, np, &STD_WEIGHTS, (15, 40), |prog, seed, rep| check_program(prog, seed, p.thorough, rep));
}

pub fn replay(kind: &str, text: &str, seed: u64, rep: &mut Report) -> bool {
    match kind {
        "autospec" => {
            match Spec::from_text(text) {
                Ok(s) => check_spec(rep, &s, seed),
                Err(e) => rep.harness_error(e),
            }
            true
        }
        KIND_MGR => replay_program(text, rep, |p, rep| check_program(p, seed, false, rep)),
        _ => false,
    }
}
