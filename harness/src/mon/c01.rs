//! C01 — membership equals the SMT-LIB denotation of the construction; rewrites preserve the language;
//! `nullable` is exact.

use super::rectx::*;
use crate::gen::reprog::*;
use crate::oracle::re::*;
use crate::util::*;
use aws_smt_strings::regular_expressions::{ReManager, RegLan};
use aws_smt_strings::smt_regular_expressions as w;
use aws_smt_strings::smt_strings::SmtString;

#[derive(Clone, Copy, PartialEq)]
pub enum Surface {
    Mgr,
    Wrap,
}

impl Surface {
    pub fn kind(&self) -> &'static str {
        match self {
            Surface::Mgr => "reprog-mgr",
            Surface::Wrap => "reprog-wrap",
        }
    }
}

pub struct Cfg {
    pub budget: usize,
    pub exh_len: usize,
    pub rand_words: usize,
    pub noise: usize,
}

pub fn cfg(thorough: bool) -> Cfg {
    if thorough {
        Cfg { budget: 20000, exh_len: 4, rand_words: 40, noise: 30 }
    } else {
        Cfg { budget: 4000, exh_len: 3, rand_words: 20, noise: 10 }
    }
}

pub fn words_for(ctx: &ReCtx, rng: &mut Rng, c: &Cfg) -> Vec<Vec<u32>> {
    let letters = ctx.letters(rng, 3);
    let mut words: Vec<Vec<u32>> = vec![vec![]];
    // all words up to exh_len over the letters
    let mut frontier: Vec<Vec<u32>> = vec![vec![]];
    for _ in 0..c.exh_len {
        let mut next = Vec::new();
        for wd in &frontier {
            for &l in &letters {
                let mut x = wd.clone();
                x.push(l);
                next.push(x);
            }
        }
        words.extend(next.iter().cloned());
        frontier = next;
    }
    // random longer words over representatives of all atoms
    let a = ctx.atoms();
    let mut reps = Vec::new();
    for k in 0..a.n() {
        reps.push(a.lo[k]);
        reps.push(a.hi(k));
    }
    for _ in 0..c.rand_words {
        words.push(gen_word(rng, &reps, 12));
    }
    words
}

/// words derived from the reference DFA: shortest member, shortest non-member, random walks that avoid the dead state
pub fn guided_words(d: &Dfa, atoms: &Atoms, rng: &mut Rng, n: usize) -> Vec<Vec<u32>> {
    let mut out = Vec::new();
    if let Some(wd) = d.witness_from(d.start) {
        out.push(atoms.word(&wd));
    }
    if let Some(wd) = d.not().witness_from(d.start) {
        out.push(atoms.word(&wd));
    }
    // live states: those from which a final state is reachable
    let live: Vec<bool> = (0..d.n()).map(|s| !d.is_empty_from(s as u32)).collect();
    for _ in 0..n {
        let mut s = d.start;
        let mut wd = Vec::new();
        let len = 1 + rng.usize(16);
        for _ in 0..len {
            let mut k = rng.usize(d.a);
            // prefer a live successor
            for _ in 0..4 {
                if live[d.step(s, k) as usize] {
                    break;
                }
                k = rng.usize(d.a);
            }
            s = d.step(s, k);
            // random representative inside the atom
            let (lo, hi) = (atoms.lo[k], atoms.hi(k));
            wd.push(lo + rng.below((hi - lo + 1) as u64) as u32);
            if d.f[s as usize] && rng.chance(1, 3) {
                break;
            }
        }
        out.push(wd);
    }
    out
}

fn in_re(surface: Surface, m: &mut Option<&mut ReManager>, wd: &[u32], e: RegLan) -> Result<bool, String> {
    let s = SmtString::from(wd);
    match surface {
        Surface::Mgr => {
            let mm = m.as_mut().unwrap();
            guard(|| mm.str_in_re(&s, e))
        }
        Surface::Wrap => guard(|| w::str_in_re(&s, e)),
    }
}

/// Run all C01 oracles on one program. Returns the number of violations found.
pub fn check_program(prog: &Program, surface: Surface, seed: u64, thorough: bool, rep: &mut Report, record: bool) -> u64 {
    let c = cfg(thorough);
    let before = rep.violation_count;
    let mut rng = Rng::derive(seed, 0xC01, prog.ops.len() as u64);
    let mut mgr_store;
    let mut mgr: Option<&mut ReManager> = match surface {
        Surface::Mgr => {
            mgr_store = ReManager::new();
            Some(&mut mgr_store)
        }
        Surface::Wrap => None,
    };
    let kind = surface.kind();
    let text = prog.to_text();

    // interleave history noise on the manager surface
    if let Some(m) = mgr.as_mut() {
        if rng.chance(1, 2) {
            noise(m, &mut rng, &[], c.noise, 300);
        }
    }
    let (run, err) = match surface {
        Surface::Mgr => run_mgr(mgr.as_mut().unwrap(), prog, usize::MAX),
        Surface::Wrap => run_wrap(prog, usize::MAX),
    };
    match err {
        Some(RunErr::Panic(k, msg)) => {
            let sig = format!("constructor-panic:{}", prog.ops[k].name());
            rep.violation("constructor-panic", &sig, format!("step {} ({}) panicked: {}", k, prog.ops[k].to_text(), msg), kind, &text, seed);
        }
        Some(RunErr::Overflow(_)) => rep.inc("programs_cut_by_documented_overflow_panic"),
        None => {}
    }
    let mut ctx = ReCtx::new(&prog.all_points(), c.budget);
    let words = words_for(&ctx, &mut rng, &c);

    let mut tainted = false;
    for k in 0..run.terms.len() {
        let op = &prog.ops[k];
        let t = run.terms[k];
        let rb = run.refs[k].clone();
        if record {
            rep.hist("ops", op.name());
            let nontrivial = rb.size() >= 3;
            let key = format!("{}|{}", kind, rb.show());
            rep.eval(if nontrivial { Some(&key) } else { None });
        }
        let case_for = |k: usize| prog.slice(k).to_text();

        // (i) rewrite preservation, per constructor call: the denotation of the call applied to the
        //     operand TERMS (read structurally) must equal the denotation of the result term
        let rs = ctx.sref(t);
        let local_pool: Vec<R> = run.terms[..k].iter().map(|&x| ctx.sref(x)).collect();
        let rl = op.denote(&local_pool);
        let opnds: Vec<String> = op.operands().iter().map(|&i| short(&term_text(run.terms[i]), 40)).collect();
        let callsig = format!("{}({})", op.name(), opnds.join(","));
        match ctx.pair(&rl, &rs) {
            Ok((dl, ds)) => {
                rep.inc("rewrite_checked");
                if let Some(cex) = dl.diff(&ds) {
                    let wd = ctx.atoms().word(&cex);
                    if wd.len() <= 10 && (dp_matches(&rl, &wd) != dl.accepts(&cex) || dp_matches(&rs, &wd) != ds.accepts(&cex)) {
                        rep.harness_error(format!("oracle A/B disagree on {} for {}", show_str(&wd), rl.show()));
                    } else {
                        tainted = true;
                        rep.violation(
                            "rewrite",
                            &format!("rewrite:{}", callsig),
                            format!("step {} {}: call {} should denote {} but the resulting term {} differs on {} (call: {}, term: {})", k, op.to_text(), callsig, short(&rl.show(), 200), term_text(t), show_str(&wd), dl.accepts(&cex), ds.accepts(&cex)),
                            kind,
                            &case_for(k),
                            seed,
                        );
                    }
                }
            }
            Err(_) => {
                rep.inc("skipped_refdfa_budget_rewrite");
                if let Some(why) = provably_different(&rl, &rs) {
                    tainted = true;
                    rep.violation("rewrite", &format!("rewrite:{}", callsig), format!("step {} {}: call {} should denote {} but the resulting term is {} ({})", k, op.to_text(), callsig, short(&rl.show(), 200), term_text(t), why), kind, &case_for(k), seed);
                }
            }
        }
        if tainted {
            // an operand is already wrong: end-to-end comparisons below would only repeat that finding
            rep.inc("steps_after_a_wrong_rewrite_not_compared_end_to_end");
            continue;
        }

        // (iii) public nullable flag vs. structural definition on the construction
        if t.nullable != rb.has_eps() {
            let sig = format!("nullable:{}", callsig);
            rep.violation("nullable", &sig, format!("step {} {}: nullable={} but eps-membership of the construction is {}; term {}", k, op.to_text(), t.nullable, rb.has_eps(), term_text(t)), kind, &case_for(k), seed);
        }
        rep.inc("nullable_checks");

        // end-to-end: language of the whole construction program == language of the term's own AST
        let pair = ctx.pair(&rb, &rs);
        let (da, ds) = match pair {
            Ok(p) => p,
            Err(_) => {
                rep.inc("skipped_refdfa_budget");
                // fall back to the DP matcher on the short words
                let mut n = 0;
                for wd in words.iter().filter(|x| x.len() <= 6).take(60) {
                    let want = dp_matches(&rb, wd);
                    match in_re(surface, &mut mgr, wd, t) {
                        Ok(got) => {
                            if got != want {
                                let sig = format!("member-dp:{}", callsig);
                                rep.violation("member", &sig, format!("step {} {}: str_in_re({}) = {} but the construction says {}", k, op.to_text(), show_str(wd), got, want), kind, &case_for(k), seed);
                                break;
                            }
                        }
                        Err(msg) => {
                            rep.violation("member-panic", &format!("member-panic:{}", callsig), format!("str_in_re panicked on {}: {}", show_str(wd), msg), kind, &case_for(k), seed);
                            break;
                        }
                    }
                    n += 1;
                }
                rep.count("member_checks_dp_only", n);
                continue;
            }
        };
        rep.inc("end_to_end_checked");
        rep.max("refdfa_states", da.n() as u64);
        if let Some(cex) = da.diff(&ds) {
            let wd = ctx.atoms().word(&cex);
            rep.violation(
                "end-to-end",
                &format!("end-to-end:{}", callsig),
                format!("step {} {}: construction {} and resulting term {} differ on {}", k, op.to_text(), short(&rb.show(), 200), term_text(t), show_str(&wd)),
                kind,
                &case_for(k),
                seed,
            );
            tainted = true;
            continue;
        }

        // (ii) membership through the API
        let mut ws: Vec<&Vec<u32>> = words.iter().collect();
        let mut guided = guided_words(&da, ctx.atoms(), &mut rng, if thorough { 12 } else { 6 });
        if rng.chance(1, 12) {
            // one long word (200-1500 characters) that stays among live states as long as it can
            let live: Vec<bool> = (0..da.n()).map(|s| !da.is_empty_from(s as u32)).collect();
            let len = 200 + rng.usize(1300);
            let mut st = da.start;
            let mut wd = Vec::with_capacity(len);
            for _ in 0..len {
                let mut k = rng.usize(da.a);
                for _ in 0..6 {
                    if live[da.step(st, k) as usize] {
                        break;
                    }
                    k = rng.usize(da.a);
                }
                st = da.step(st, k);
                wd.push(ctx.atoms().lo[k]);
            }
            rep.inc("long_words");
            guided.push(wd);
        }
        ws.extend(guided.iter());
        let mut n = 0u64;
        let mut selfcheck = 0u64;
        for wd in ws {
            let aw = ctx.atoms().word_of(wd);
            let want = da.accepts(&aw);
            if wd.len() <= 5 && n % 4 == 0 {
                // oracle self-check A vs B
                selfcheck += 1;
                if dp_matches(&rb, wd) != want {
                    rep.harness_error(format!("oracle A/B disagree on {} for {}", show_str(wd), rb.show()));
                    continue;
                }
            }
            n += 1;
            match in_re(surface, &mut mgr, wd, t) {
                Ok(got) => {
                    if got == want && wd.len() <= 5 && rb.size() <= 14 && rep.xchecks.len() < 60 && n % 97 == 1 && crate::oracle::smtlib::cvc5_safe(&rb) {
                        rep.xcheck(|| format!("(= (str.in_re {} {}) {})", crate::oracle::smtlib::lit(wd), crate::oracle::smtlib::re(&rb), got));
                    }
                    if got != want {
                        let sig = format!("member:{}", callsig);
                        rep.violation("member", &sig, format!("step {} {}: str_in_re({}) = {} but the construction {} says {}; term {}", k, op.to_text(), show_str(wd), got, rb.show(), want, term_text(t)), kind, &case_for(k), seed);
                        break;
                    }
                }
                Err(msg) => {
                    rep.violation("member-panic", &format!("member-panic:{}", callsig), format!("str_in_re panicked on {}: {}", show_str(wd), msg), kind, &case_for(k), seed);
                    break;
                }
            }
        }
        rep.count("member_checks", n);
        rep.count("oracle_selfchecks", selfcheck);
    }

    // (iii) store walk: nullable of every term the manager holds
    let all_terms: Vec<RegLan> = match surface {
        Surface::Mgr => mgr.as_ref().unwrap().verif_terms(),
        Surface::Wrap => w::verif_with_manager(|m| m.verif_terms()),
    };
    let cap = if thorough { 20000 } else { 4000 };
    let mut walked = 0u64;
    // for the long-lived wrapper manager, walk the most recent terms
    let start = all_terms.len().saturating_sub(cap);
    for &t in &all_terms[start..] {
        let r = ctx.sref(t);
        walked += 1;
        if t.nullable != r.has_eps() {
            rep.violation("nullable-store", "nullable-store", format!("store term {} has nullable={} but eps-membership {}", term_text(t), t.nullable, r.has_eps()), kind, &text, seed);
            break;
        }
    }
    rep.count("store_terms_walked", walked);
    rep.count("refdfa_built", ctx.eng.built);
    rep.count("refdfa_over_budget_events", ctx.eng.over_budget);
    if record {
        rep.inc(&format!("programs_{}", kind));
    }
    rep.violation_count - before
}

/// keep the smallest reproducing case: try the slices first
fn shrink_violations(rep: &mut Report, surface: Surface, seed: u64, thorough: bool, from: usize) {
    for i in from..rep.violations.len() {
        let v = rep.violations[i].clone();
        if let Ok(p) = Program::from_text(&v.case) {
            let mut tmp = Report::new("C01", "");
            let n = check_program(&p, surface, seed, thorough, &mut tmp, false);
            if n == 0 || !tmp.violations.iter().any(|x| x.rule == v.rule) {
                // the slice does not reproduce (history dependent): keep a note
                rep.violations[i].detail.push_str(" [slice did not reproduce alone; replay with the full program of this seed/shard]");
            }
        }
    }
}

pub fn run(p: &Params, rep: &mut Report) {
    {
        // loop bounds in the gaps of the other probes (300 .. 10^5)
        let mut rng = p.rng(0x4C42);
        super::ladder::loop_bounds_sweep(rep, &mut rng, if p.thorough { 12 } else { 3 }, p.seed);
    }
    if p.shard == 8 {
        // depth instead of width: terms nested a few hundred (thousand) levels deep
        for d in if p.thorough { vec![64u32, 257, 1000, 3000] } else { vec![65u32, 256, 700 + (p.seed as u32 % 7) * 50] } {
            super::ladder::deep_nesting(rep, "C01", d, p.seed);
        }
    }
    if p.shard == 7 {
        // operand and class counts beyond 2^10 (and, for one term, beyond 2^16)
        for n in if p.thorough { vec![1100u32, 2100, 4200, 1300 + (p.seed as u32 * 37) % 1700] } else { vec![1100u32, 301 + (p.seed as u32 * 397) % 1700] } {
            super::ladder::wide_union(rep, "C01", n, p.seed);
        }
        // first letters 0, 1, 2, ...: the class index of a character is the character itself (256+ classes)
        super::ladder::wide_union_from(rep, "C01", 300, 0, p.seed);
        super::ladder::wide_tree(rep, "C01", 65_600, p.seed);
        // many operands and long words at once
        super::ladder::wide_long_words(rep, 300 + (p.seed as u32 * 13) % 200, if p.thorough { 4096 } else { 1000 }, p.seed);
    }
    if p.shard == 6 {
        super::scale::c01(rep, p.seed);
    }
    // exhaustive tiny programs: every construction with at most two nested operators over 10 atoms
    let stride = 1;
    let pairs = p.size(600, 10000);
    let thorough = p.thorough;
    let mut flip = 0u64;
    for_tiny_programs(p, rep, stride, pairs, |prog, seed, rep| {
        flip += 1;
        let surface = if flip % 5 == 4 { Surface::Wrap } else { Surface::Mgr };
        check_program(prog, surface, seed, thorough, rep, true);
    });
    // simple patterns (concatenations of ranges and loops over ranges, two letters): ALL patterns of three items
    // over a 12-item vocabulary, and sampled patterns of four to six items
    {
        let mut rng2 = p.rng(0x51);
        let total = SIMPLE_ITEMS * SIMPLE_ITEMS * SIMPLE_ITEMS;
        let mut i = p.shard as usize;
        let mut n = 0u64;
        while i < total {
            let prog = simple_pattern_program(&[i % SIMPLE_ITEMS, (i / SIMPLE_ITEMS) % SIMPLE_ITEMS, i / (SIMPLE_ITEMS * SIMPLE_ITEMS)]);
            let seed = rng2.next();
            let surface = if n % 4 == 3 { Surface::Wrap } else { Surface::Mgr };
            check_program(&prog, surface, seed, thorough, rep, true);
            n += 1;
            i += p.nshards as usize;
        }
        for _ in 0..p.size(150, 2500) {
            let len = 4 + rng2.usize(3);
            let items: Vec<usize> = (0..len).map(|_| rng2.usize(SIMPLE_ITEMS)).collect();
            let prog = simple_pattern_program(&items);
            let seed = rng2.next();
            check_program(&prog, Surface::Mgr, seed, thorough, rep, true);
            n += 1;
        }
        rep.count("simple_pattern_programs", n);
    }
    for_firstchar_programs(p, rep, p.size(25, 250), |prog, seed, rep| {
        check_program(prog, Surface::Mgr, seed, thorough, rep, true);
    });
    for_max_loop_programs(p, rep, p.size(12, 120), |prog, seed, rep| {
        check_program(prog, Surface::Mgr, seed, thorough, rep, true);
    });
    let nprog = p.size(150, 1500);
    let mut rng = p.rng(1);
    let weights = [(Profile::Boundary, 25), (Profile::Loops, 25), (Profile::Boolean, 20), (Profile::Patterns, 15), (Profile::Mixed, 15)];
    for i in 0..nprog {
        let prof = Profile::pick(&mut rng, &weights);
        let steps = 20 + rng.usize(41);
        let prog = gen_program(&mut rng, prof, steps);
        let surface = if i % 3 == 2 { Surface::Wrap } else { Surface::Mgr };
        let seed = rng.next();
        rep.hist("profiles", prof.name());
        let from = rep.violations.len();
        rep.sample(|| format!("[{} {}] {}", prof.name(), surface.kind(), prog.to_text().replace('\n', "; ")));
        let r = guard(|| check_program(&prog, surface, seed, p.thorough, rep, true));
        if let Err(msg) = r {
            if panic_in_harness(&msg) {
                rep.harness_error(format!("monitor panicked: {}", msg));
            } else {
                rep.violation("panic", "panic", format!("crate panicked outside a guarded call: {}", msg), surface.kind(), &prog.to_text(), seed);
            }
        }
        shrink_violations(rep, surface, seed, p.thorough, from);
    }
}

pub fn replay(kind: &str, text: &str, seed: u64, rep: &mut Report) -> bool {
    if kind == "scale" {
        super::scale::c01(rep, seed);
        return true;
    }
    let surface = match kind {
        "reprog-mgr" => Surface::Mgr,
        "reprog-wrap" => Surface::Wrap,
        _ => return false,
    };
    match Program::from_text(text) {
        Ok(p) => {
            check_program(&p, surface, seed, false, rep, true);
            true
        }
        Err(e) => {
            rep.harness_error(format!("cannot parse case: {}", e));
            true
        }
    }
}
